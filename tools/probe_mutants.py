#!/usr/bin/env python3
"""Apply each given mutant to a scratch copy and print the rule instances that fail: probe_mutants.py <patch-name>..."""
import sys, json
from vpcheck.selftest import run_one
from vpcheck.registry import PROPERTIES
for name in sys.argv[1:]:
    prop = name.split("-")[0]
    n, status, msg = run_one(prop, PROPERTIES[prop]["rules"], name, {"expect": ["__none__"]})
    print(name, "::", status, msg[:600])
