"""List undischarged panic-site keys per table section (development aid for reviewing tables/panic_sites.json)."""
import sys, json
from vpcheck.build import load_program
from vpcheck.rules import c08
from vpcheck.totality import dump_candidates, load_table
prog = load_program("default")
entry, pre, post = c08.regions(prog)
for name, region in (("C08.pre", pre), ("C08.post", post)):
    tab = load_table(name)
    rest = dump_candidates(prog, region, [entry])
    print("=====", name, len(rest), "keys")
    for key, lst in sorted(rest.items()):
        mark = "  " if key in tab and tab[key]["count"] >= len(lst) else "!!"
        print(mark, len(lst), key)
        for s, why in lst:
            print("        ", s.where(), "::", why)
