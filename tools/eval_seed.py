#!/usr/bin/env python3
"""Confirm a seeded change from a sub-agent and run the checks against it.
usage: eval_seed.py <Cxx> [<seed-dir>]   (default seed dir $SEED_BASE/<Cxx>/seed, worktree $SEED_BASE/<Cxx>; SEED_BASE defaults to /tmp/seed)"""
import sys, os, subprocess, json, re, shutil
pid = sys.argv[1]
BASE = os.environ.get("SEED_BASE", "/tmp/seed")
wt = "%s/%s" % (BASE, pid)
sd = sys.argv[2] if len(sys.argv) > 2 else os.path.join(wt, "seed")
env = dict(os.environ, CARGO_NET_OFFLINE="true")

def sh(cmd, cwd=None, check=False):
    r = subprocess.run(cmd, shell=True, cwd=cwd, env=env, stdout=subprocess.PIPE, stderr=subprocess.STDOUT, text=True)
    if check and r.returncode != 0:
        print(r.stdout[-3000:]); sys.exit("command failed: " + cmd)
    return r

def tests(cwd, filt=""):
    r = sh("cargo test --offline %s 2>&1" % filt, cwd)
    m = re.findall(r"test result: (\w+)\. (\d+) passed; (\d+) failed", r.stdout)
    failed = re.findall(r"^test (\S+) \.\.\. FAILED", r.stdout, re.M)
    return m, failed, r.stdout

res = {"property": pid}
sh("git checkout -q -- . && git clean -fdq src", wt, check=True)
# 1. patch only: suite passes (allow the known flaky test, retry once)
sh("git apply %s/patch.diff" % sd, wt, check=True)
for attempt in range(3):
    m, failed, out = tests(wt)
    if not [f for f in failed if f != "beacon::encode_decode_cmd"] and m:
        if not failed:
            break
res["suite_with_patch"] = {"summary": m, "failed": failed}
# demo names
demo = open(os.path.join(sd, "demo.diff")).read()
names = re.findall(r"^\+\s*fn (\w+)\s*\(", demo, re.M)
# 2. patch + demo: demo fails
sh("git apply %s/demo.diff" % sd, wt, check=True)
m2, failed2, out2 = tests(wt)
res["with_patch_and_demo"] = {"summary": m2, "failed": failed2}
# 3. demo only: passes
sh("git checkout -q -- . && git clean -fdq src", wt, check=True)
sh("git apply %s/demo.diff" % sd, wt, check=True)
for attempt in range(3):
    m3, failed3, out3 = tests(wt)
    if not [f for f in failed3 if f != "beacon::encode_decode_cmd"]:
        break
res["demo_only"] = {"summary": m3, "failed": failed3}
sh("git checkout -q -- . && git clean -fdq src", wt, check=True)
ok = (not [f for f in res["suite_with_patch"]["failed"] if f != "beacon::encode_decode_cmd"]) and bool([f for f in failed2 if f != "beacon::encode_decode_cmd"]) and not [f for f in failed3 if f != "beacon::encode_decode_cmd"]
res["confirmed"] = ok
print(json.dumps(res, indent=1))
json.dump(res, open(os.path.join(sd, "eval.json"), "w"), indent=1)
if "--no-checks" in sys.argv:
    sys.exit(0)
# 4. run checks against /repo with the patch applied
st = sh("git -C /repo status --porcelain --untracked-files=no").stdout.strip()
if st:
    sys.exit("/repo is not clean: " + st)
sh("git -C /repo apply %s/patch.diff" % sd, check=True)
try:
    props = [pid]
    allp = ["C%02d" % i for i in range(1, 21)]
    det = {}
    for p in allp:
        r = sh("bin/check %s quick" % p, "/verif")
        fails = re.findall(r"FAIL (.+?) :: ", r.stdout)
        if r.returncode != 0 or fails:
            det[p] = {"exit": r.returncode, "failed_rules": sorted(set(fails))}
    res["detected_by"] = det
finally:
    sh("git -C /repo checkout -- .", check=True)
    sh("git -C /verif checkout -- evidence")  # evidence is only ever committed from the unchanged tree
print(json.dumps(res["detected_by"], indent=1))
json.dump(res, open(os.path.join(sd, "eval.json"), "w"), indent=1)
