#!/usr/bin/env python3
"""Evaluate a behaviour-preserving refactoring made by a sub-agent: the suite must pass with it and every check
must stay silent.  usage: eval_refactor.py <Cxx>   (worktree $RF_BASE/<Cxx>, patch $RF_BASE/<Cxx>/seed/patch.diff)"""
import sys, os, subprocess, json, re
pid = sys.argv[1]
BASE = os.environ.get("RF_BASE", "/tmp/rf")
wt = "%s/%s" % (BASE, pid)
sd = os.path.join(wt, "seed")
env = dict(os.environ, CARGO_NET_OFFLINE="true")

def sh(cmd, cwd=None, check=False):
    r = subprocess.run(cmd, shell=True, cwd=cwd, env=env, stdout=subprocess.PIPE, stderr=subprocess.STDOUT, text=True)
    if check and r.returncode != 0:
        print(r.stdout[-3000:]); sys.exit("command failed: " + cmd)
    return r

res = {"property": pid}
if "--skip-suite" not in sys.argv:
    sh("git checkout -q -- . && git clean -fdq src", wt, check=True)
    sh("git apply %s/patch.diff" % sd, wt, check=True)
    for attempt in range(3):
        r = sh("cargo test --offline 2>&1", wt)
        m = re.findall(r"test result: (\w+)\. (\d+) passed; (\d+) failed", r.stdout)
        failed = re.findall(r"^test (\S+) \.\.\. FAILED", r.stdout, re.M)
        if m and not failed:
            break
    res["suite_with_patch"] = {"summary": m, "failed": failed}
    sh("git checkout -q -- . && git clean -fdq src", wt, check=True)
st = sh("git -C /repo status --porcelain --untracked-files=no").stdout.strip()
if st:
    sys.exit("/repo is not clean: " + st)
sh("git -C /repo apply %s/patch.diff" % sd, check=True)
try:
    det = {}
    for p in ["C%02d" % i for i in range(1, 21)]:
        r = sh("bin/check %s quick" % p, "/verif")
        fails = re.findall(r"FAIL (.+?) :: ", r.stdout)
        if r.returncode != 0 or fails:
            det[p] = {"exit": r.returncode, "failed_rules": sorted(set(fails)), "tail": r.stdout[-1500:]}
    res["alarms"] = det
finally:
    sh("git -C /repo checkout -- .", check=True)
    sh("git -C /verif checkout -- evidence")  # evidence is only ever committed from the unchanged tree
print(json.dumps({k: v for k, v in res.items() if k != "alarms"}, indent=1))
for p, d in res["alarms"].items():
    print("ALARM", p, d["exit"], d["failed_rules"])
    if not d["failed_rules"]:
        print(d["tail"])
json.dump(res, open(os.path.join(sd, "eval.json"), "w"), indent=1)
