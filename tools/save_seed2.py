#!/usr/bin/env python3
"""Round 2: official detection pass for a confirmed seed and save into /verif/seeded/<name>/.
usage: save_seed2.py <Cxx> <name> "<needs>"   (seed in $SEED_BASE/<Cxx>/seed, confirmation in eval.json there)"""
import sys, os, json, shutil, subprocess, re
pid, name, needs = sys.argv[1], sys.argv[2], sys.argv[3]
base = os.environ.get("SEED_BASE", "/tmp/seed2")
sd = "%s/%s/seed" % (base, pid)
env = dict(os.environ, CARGO_NET_OFFLINE="true", VPCHECK_REUSE="1")
def sh(cmd, cwd=None, check=False):
    r = subprocess.run(cmd, shell=True, cwd=cwd, env=env, stdout=subprocess.PIPE, stderr=subprocess.STDOUT, text=True)
    if check and r.returncode != 0:
        print(r.stdout[-2000:]); sys.exit("failed: " + cmd)
    return r
ev = json.load(open(os.path.join(sd, "eval.json")))
assert ev.get("confirmed"), "seed not confirmed"
st = sh("git -C /repo status --porcelain --untracked-files=no").stdout.strip()
if st:
    sys.exit("/repo is not clean: " + st)
sh("git -C /repo apply %s/patch.diff" % sd, check=True)
det = {}
try:
    # SEED_PROPS: restrict the official pass to the listed properties (the own one and those a probe_all run on a scratch copy flagged)
    for p in (os.environ["SEED_PROPS"].split() if os.environ.get("SEED_PROPS") else ["C%02d" % i for i in range(1, 21)]):
        r = sh("bin/check %s quick" % p, "/verif")
        fails = sorted(set(re.findall(r"FAIL (.+?) :: ", r.stdout)))
        if r.returncode != 0 or fails:
            det[p] = {"exit": r.returncode, "failed_rules": fails}
finally:
    sh("git -C /repo checkout -- .", check=True)
    sh("git -C /verif checkout -- evidence")
dst = "/verif/seeded/%s" % name
os.makedirs(dst, exist_ok=True)
for f in ("patch.diff", "demo.diff", "README.md"):
    shutil.copy(os.path.join(sd, f), os.path.join(dst, f))
meta = {
    "property": pid, "round": int(os.environ.get("SEED_ROUND", "2")),
    "origin": "independent sub-agent given only the property text and a scratch worktree of /repo at the fixed HEAD (asked for a subtle change in a less obvious mechanism; round 3: disguised as a feature / optimisation / robustness fix outside the central function)",
    "needs_to_manifest": needs,
    "confirmed_by_me": {
        "suite_with_patch": ev["suite_with_patch"],
        "demo_fails_with_patch": ev["with_patch_and_demo"]["failed"],
        "demo_passes_without_patch": not [f for f in ev["demo_only"]["failed"] if f != "beacon::encode_decode_cmd"],
        "what_i_ran": "tools/eval_seed.py %s --no-checks in the scratch worktree (suite with patch; patch+demo: demo fails; demo alone passes); then tools/save_seed2.py: git -C /repo apply patch.diff; bin/check Cxx quick for %s; git -C /repo checkout -- ." % (pid, ("the properties that tools/probe_all.py (all 20 rule sets on a scratch copy with the patch) flagged, plus the own one: " + os.environ["SEED_PROPS"]) if os.environ.get("SEED_PROPS") else "all 20 properties"),
    },
    "detected_by": det,
    "detected_by_own_property": pid in det,
}
json.dump(meta, open(os.path.join(dst, "meta.json"), "w"), indent=1)
print(pid, name, "detected by", {k: v["failed_rules"][:3] for k, v in det.items()})
