#!/bin/bash
# probe_small.sh <base> <out>: probe every <base>/Cxx/seed/pN.diff on all 20 properties, 6 in parallel
base=$1; out=$2
rm -rf /tmp/clean && mkdir -p /tmp/clean && git -C /repo archive HEAD | tar -x -C /tmp/clean
mkdir -p /tmp/probe_out; rm -f /tmp/probe_out/*
ls $base/C*/seed/p*.diff | xargs -P 6 -I{} sh -c 'n=$(echo {} | sed "s#.*/\(C[0-9]*\)/seed/\(p[0-9]\).diff#\1-\2#"); VPCHECK_REPO=/tmp/clean python3 /verif/tools/probe_all.py {} -v > /tmp/probe_out/$n.txt 2>&1'
: > $out
for f in $(ls /tmp/probe_out/*.txt | sort); do echo "=== $(basename $f .txt)" >> $out; grep -v "^note:" $f | cut -c1-500 >> $out; done
rm -rf /tmp/probe_out
