#!/usr/bin/env python3
"""Apply one patch to a scratch copy of /repo and run the rules of ALL properties on it (one fact extraction):
probe_all.py <patch-file>.  Prints the failing rule instances per property."""
import sys, os, subprocess, shutil
os.environ["VPCHECK_REUSE"] = "1"
sys.path.insert(0, os.path.dirname(os.path.dirname(os.path.abspath(__file__))))
from vpcheck.selftest import _scratch_copy
from vpcheck.engine import evaluate
from vpcheck.registry import PROPERTIES
from vpcheck.build import InfraError, CACHE, tree_hash
patch = os.path.abspath(sys.argv[1])
d, dst = _scratch_copy()
try:
    r = subprocess.run(["patch", "-p1", "--no-backup-if-mismatch", "-s", "-f", "-i", patch], cwd=dst, stdout=subprocess.PIPE, stderr=subprocess.STDOUT, text=True)
    if r.returncode != 0:
        sys.exit("patch does not apply: " + r.stdout)
    any_fail = False
    notes = None
    only = [a for a in sys.argv[2:] if a.startswith("C") and len(a) == 3]
    for prop in sorted(only or PROPERTIES):
        try:
            cx, prog = evaluate(prop, "selftest", PROPERTIES[prop]["rules"], "default", repo=dst)
        except InfraError as e:
            sys.exit("does not compile: %s" % str(e)[-1500:])
        if notes is None:
            notes = prog.rename_notes
            for n in notes:
                print("note:", n)
        failed = sorted(set(o.fullkey() for o in cx.obligations if not o.ok))
        if failed:
            any_fail = True
            print(prop, "FAIL", failed)
            if "-v" in sys.argv:
                for o in cx.obligations:
                    if not o.ok:
                        print("    ", o.fullkey(), "::", o.msg, o.site or "")
    if not any_fail:
        print("silent on all 20 properties")
    th = tree_hash(dst)
    for f in os.listdir(CACHE):
        if th in f:
            os.unlink(os.path.join(CACHE, f))
finally:
    shutil.rmtree(d, ignore_errors=True)
