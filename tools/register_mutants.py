#!/usr/bin/env python3
"""Register every unregistered mutant patch with the rule instances it currently fires (reviewed by hand afterwards)."""
import json, os, sys
from vpcheck.selftest import run_one, MUT_DIR, EXPECT
from vpcheck.registry import PROPERTIES
exp = json.load(open(EXPECT))
for name in sorted(os.listdir(MUT_DIR)):
    if name in exp or not name.endswith(".patch"):
        continue
    prop = name.split("-")[0]
    n, status, msg = run_one(prop, PROPERTIES[prop]["rules"], name, {"expect": ["__none__"]})
    fired = []
    if "got [" in msg:
        fired = eval(msg[msg.index("got [") + 4:])
    kind = "refactor" if "-refactor-" in name else "mutant"
    if kind == "refactor":
        exp[name] = {"property": prop, "kind": "refactor", "expect": [], "origin": "hand-written behaviour-preserving edit"}
        print(name, "refactor; fired:", fired)
    else:
        if not fired:
            print("NOT DETECTED:", name, status, msg[:200])
            continue
        exp[name] = {"property": prop, "expect": fired, "origin": "hand-written mutant"}
        print(name, "->", fired)
json.dump(exp, open(EXPECT, "w"), indent=1)
