"""Development aid: undischarged panic sites of the call-graph closure of the given functions."""
import sys
from vpcheck.build import load_program
from vpcheck.totality import closure_region, dump_candidates
prog = load_program("default")
entries = []
for suf in sys.argv[1:]:
    entries += [b for b in prog.bodies if b.path.endswith(suf) and b.kind != "closure"]
print([e.path for e in entries])
region = closure_region(prog, entries)
print(len(region), "functions")
from vpcheck.panics import sites_in
n = sum(len(sites_in(prog.by_did[d], bl)) for d, bl in region.items())
rest = dump_candidates(prog, region, entries)
print(n, "sites;", sum(len(v) for v in rest.values()), "undischarged")
for key, lst in sorted(rest.items()):
    print(len(lst), key)
    for s, why in lst:
        print("        ", s.where(), "::", why)
