#!/bin/bash
# probe_dir.sh <base dir with Cxx/seed/patch.diff> <out file> : run probe_all on every patch, 5 in parallel, against a clean export of /repo HEAD
base=$1; out=$2
rm -rf /tmp/clean && mkdir -p /tmp/clean && git -C /repo archive HEAD | tar -x -C /tmp/clean
mkdir -p /tmp/probe_out
ls $base | grep '^C[0-9][0-9]$' | xargs -P 5 -I{} sh -c "VPCHECK_REPO=/tmp/clean python3 /verif/tools/probe_all.py $base/{}/seed/patch.diff -v > /tmp/probe_out/{}.txt 2>&1"
: > $out
for p in $(ls $base | grep '^C[0-9][0-9]$'); do echo "=== $p" >> $out; grep -v "^note:" /tmp/probe_out/$p.txt | cut -c1-500 >> $out; done
rm -rf /tmp/probe_out
