#!/usr/bin/env python3
"""Regenerate tables/name_index.json (functions, fields, constants of the reviewed tree) from /repo's current
tree.  Run only after reviewing a tree on which all checks pass: it becomes the reference for rename detection."""
import json, os, sys
sys.path.insert(0, os.path.dirname(os.path.dirname(os.path.abspath(__file__))))
from vpcheck.renames import build_index, INDEX
from vpcheck.build import load_program, CONFIGS
if os.path.exists(INDEX):
    os.unlink(INDEX)
out = {"functions": {}, "fields": {}, "consts": {}}
for cfg in CONFIGS:
    prog = load_program(cfg)
    ix = build_index(prog.raw)
    for k in out:
        for p, v in ix[k].items():
            out[k].setdefault(p, v)
json.dump(out, open(INDEX, "w"), indent=0, sort_keys=True)
print({k: len(v) for k, v in out.items()})
