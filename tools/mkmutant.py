#!/usr/bin/env python3
"""Create a mutant patch from exact string replacements: mkmutant.py <name> <file> <old> <new> [<file> <old> <new> ...]"""
import sys, os, subprocess, tempfile, shutil
name = sys.argv[1]
triples = sys.argv[2:]
d = tempfile.mkdtemp(prefix="mkmut-")
try:
    a = os.path.join(d, "a"); b = os.path.join(d, "b")
    for x in (a, b):
        os.makedirs(os.path.join(x, "src", "crypto"))
    files = set(triples[0::3])
    for f in files:
        for x in (a, b):
            os.makedirs(os.path.dirname(os.path.join(x, f)), exist_ok=True)
            shutil.copy(os.path.join("/repo", f), os.path.join(x, f))
    for i in range(0, len(triples), 3):
        f, old, new = triples[i:i+3]
        p = os.path.join(b, f)
        s = open(p).read()
        if s.count(old) != 1:
            print("ERROR: %r occurs %d times in %s" % (old[:60], s.count(old), f)); sys.exit(1)
        open(p, "w").write(s.replace(old, new))
    r = subprocess.run(["diff", "-ruN", "a", "b"], cwd=d, stdout=subprocess.PIPE, text=True)
    out = r.stdout
    open("/verif/selftest/mutants/%s.patch" % name, "w").write(out)
    print("wrote", name, len(out.splitlines()), "lines")
finally:
    shutil.rmtree(d)
