#!/usr/bin/env python3
"""Regenerate /verif/MANIFEST.json from the rule registry (run from /verif)."""
import json, os, sys
sys.path.insert(0, os.path.dirname(os.path.dirname(os.path.abspath(__file__))))
from vpcheck.registry import PROPERTIES
import importlib

NOT_BUILT = "static rules for this property are designed (DESIGN.md section 4) but not built yet"

def main():
    checks = []
    na = []
    for i in range(1, 21):
        pid = "C%02d" % i
        if pid in PROPERTIES:
            m = importlib.import_module("vpcheck.rules.c%02d" % i)
            checks.append({
                "property_id": pid,
                "quick_cmd": "bin/check %s quick" % pid,
                "thorough_cmd": "bin/check %s thorough" % pid,
                "evidence_file": "/verif/evidence/%s.json" % pid,
                "replay_cmd_template": "bin/check --replay {path}",
                "engine": "vpcheck",
                "level_claimed": {
                    "category": "other",
                    "text": m.LEVEL_TEXT,
                    "design_ref": "DESIGN.md section 4, %s" % pid,
                },
                "level_note": m.LEVEL_NOTE,
                "technique": m.TECHNIQUE,
            })
        else:
            na.append({"property_id": pid, "reason": NOT_BUILT})
    man = {
        "version": 1,
        "setup_cmd": "python3 -m vpcheck.setup",
        "hooks": {
            "guard": "vpncloud_verif",
            "enable": "no hooks are needed: the checks analyse the unmodified crate's MIR (RUSTFLAGS='--cfg vpncloud_verif' would enable hooks if any existed)",
            "baseline_off_cmd": "cd /repo && cargo test --workspace --no-fail-fast --offline",
            "source_commits": [],
            "add_only": True,
        },
        "engines": [
            {"name": "vpfacts", "path": "/verif/driver", "serves_properties": [c["property_id"] for c in checks],
             "kind_free_text": "rustc_private driver (nightly) run as RUSTC_WORKSPACE_WRAPPER: serialises MIR, ADTs, impls of the vpncloud crate built from /repo's working tree"},
            {"name": "vpcheck", "path": "/verif/vpcheck", "serves_properties": [c["property_id"] for c in checks],
             "kind_free_text": "Python rule engine over the MIR fact base: call graph, dominators on edge-split CFG, result-flow tracing, gate functions, who-may-call/write/construct, taint, interval analysis, decision tables"},
        ],
        "checks": checks,
        "not_applicable": na,
        "notes": "Static analysis only. Every check re-extracts facts from /repo's current working tree (cargo +nightly check with the vpfacts wrapper) and decides rules on MIR; nothing from vpncloud is executed. Partial claims are stated in level_note.",
    }
    with open("MANIFEST.json", "w") as f:
        json.dump(man, f, indent=1)
    print("claimed:", [c["property_id"] for c in checks])

main()
