from vpcheck.build import load_program
from vpcheck import anchors as A
from vpcheck.region import pregate_region, Gate
from vpcheck.panics import sites_in
from vpcheck.intervals import discharge, check_field_invariants
from collections import Counter
import traceback,sys
prog=load_program("default")
entry=A.cloud_fn(prog,"handle_socket_event")
allpre={}
for val in (True,False):
    fold={("PeerCrypto","unencrypted"):val}
    g=Gate(prog,"G_any", lambda t: A.is_sig_verify(t) or A.is_aead_open(t), fold=fold)
    pre,post=pregate_region(prog,[entry],g,fold=fold)
    for k,v in pre.items(): allpre.setdefault(k,set()).update(v)
sites=[]
for did,blocks in allpre.items(): sites+=sites_in(prog.by_did[did],blocks)
print(len(allpre),"functions",len(sites),"sites")
ok=0; rest=[]
for s in sites:
    try:
        p,why=discharge(s)
    except Exception as e:
        traceback.print_exc(); p,why=False,"crash %r"%e
    if p: ok+=1
    else: rest.append((s,why))
print("proved",ok,"rest",len(rest))
for s,why in rest: print("  ",s.key(),"@",s.where(),"::",why)
for r in check_field_invariants(prog): print("INV",r[0],r[1],r[2],r[3].path,r[5])
