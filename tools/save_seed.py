#!/usr/bin/env python3
"""Copy a confirmed seeded change into /verif/seeded/<name>/ with meta.json. usage: save_seed.py <Cxx> <name> "<needs>" """
import sys, os, json, shutil
pid, name, needs = sys.argv[1], sys.argv[2], sys.argv[3]
sd = "%s/%s/seed" % (os.environ.get("SEED_BASE", "/tmp/seed"), pid)
dst = "/verif/seeded/%s" % name
os.makedirs(dst, exist_ok=True)
for f in ("patch.diff", "demo.diff", "README.md"):
    shutil.copy(os.path.join(sd, f), os.path.join(dst, f))
ev = json.load(open(os.path.join(sd, "eval.json")))
meta = {
    "property": pid,
    "origin": os.environ.get("SEED_ORIGIN", "independent sub-agent given only the property text and a scratch worktree of /repo at the fixed HEAD"),
    "needs_to_manifest": needs,
    "confirmed_by_me": {
        "suite_with_patch": ev["suite_with_patch"],
        "demo_fails_with_patch": ev["with_patch_and_demo"]["failed"],
        "demo_passes_without_patch": not [f for f in ev["demo_only"]["failed"] if f != "beacon::encode_decode_cmd"],
        "what_i_ran": "tools/eval_seed.py %s: in the scratch worktree: git apply patch.diff; cargo test --offline (suite). git apply demo.diff; cargo test --offline (demo fails). demo.diff alone (passes). Then git -C /repo apply patch.diff; bin/check Cxx quick for all 20 properties; git -C /repo checkout -- ." % pid,
    },
    "detected_by": ev.get("detected_by", {}),
}
json.dump(meta, open(os.path.join(dst, "meta.json"), "w"), indent=1)
print("saved", dst, "detected by", list(meta["detected_by"].keys()))
