// vpfacts: rustc_private driver that serialises the type-checked program
// (MIR of every local body, ADT table, impl table) of the workspace member
// as one JSON fact file.  See /verif/DESIGN.md section 2.1.
//
// Invoked as RUSTC_WORKSPACE_WRAPPER: argv = [vpfacts, rustc, <rustc args...>].
#![feature(rustc_private)]

extern crate rustc_abi;
extern crate rustc_driver;
extern crate rustc_hir;
extern crate rustc_interface;
extern crate rustc_middle;
extern crate rustc_span;

use rustc_driver::{Callbacks, Compilation};
use rustc_hir::def::DefKind;
use rustc_hir::def_id::{DefId, LOCAL_CRATE};
use rustc_middle::mir::interpret::{GlobalAlloc, Scalar};
use rustc_middle::mir::{
    AggregateKind, AssertKind, BasicBlockData, Body, Const, ConstValue, Operand, Place, PlaceElem, Rvalue,
    StatementKind, TerminatorKind, UnwindAction,
};
use rustc_middle::ty::{self, Instance, Ty, TyCtxt, TyKind, TypingEnv};
use rustc_span::Span;
use std::collections::HashMap;
use std::fmt::Write as _;

mod json;
use json::J;

struct Facts;

impl Callbacks for Facts {
    fn after_analysis<'tcx>(&mut self, _c: &rustc_interface::interface::Compiler, tcx: TyCtxt<'tcx>) -> Compilation {
        let out = match std::env::var("VPFACTS_OUT") {
            Ok(o) => o,
            Err(_) => return Compilation::Continue,
        };
        let crate_name = tcx.crate_name(LOCAL_CRATE).to_string();
        if let Ok(want) = std::env::var("VPFACTS_CRATE") {
            if want != crate_name {
                return Compilation::Continue;
            }
        }
        // only bin/lib primary targets, not build scripts
        if crate_name == "build_script_build" {
            return Compilation::Continue;
        }
        let mut cx = Cx { tcx, types: Vec::new(), type_ix: HashMap::new() };
        let doc = cx.dump_crate(&crate_name);
        let mut s = String::with_capacity(32 << 20);
        doc.write(&mut s);
        let tmp = format!("{}.tmp.{}", out, std::process::id());
        std::fs::write(&tmp, s).expect("vpfacts: cannot write fact file");
        std::fs::rename(&tmp, &out).expect("vpfacts: cannot rename fact file");
        Compilation::Continue
    }
}

struct Cx<'tcx> {
    tcx: TyCtxt<'tcx>,
    types: Vec<J>,
    type_ix: HashMap<Ty<'tcx>, usize>,
}

fn did_key(d: DefId) -> String {
    format!("{}:{}", d.krate.as_u32(), d.index.as_u32())
}

impl<'tcx> Cx<'tcx> {
    fn path(&self, d: DefId) -> String {
        self.tcx.def_path_str(d)
    }

    fn ty(&mut self, t: Ty<'tcx>) -> J {
        J::Int(self.ty_ix(t) as i128)
    }

    fn ty_ix(&mut self, t: Ty<'tcx>) -> usize {
        if let Some(&i) = self.type_ix.get(&t) {
            return i;
        }
        let i = self.types.len();
        self.types.push(J::Null);
        self.type_ix.insert(t, i);
        let mut o = J::obj();
        o.set("s", J::Str(format!("{}", t)));
        match t.kind() {
            TyKind::Bool => o.set("k", J::s("bool")),
            TyKind::Char => o.set("k", J::s("char")),
            TyKind::Int(it) => {
                o.set("k", J::s("int"));
                o.set("signed", J::Bool(true));
                o.set("bits", J::Int(it.bit_width().unwrap_or(64) as i128));
                o.set("name", J::s(it.name_str()));
            }
            TyKind::Uint(it) => {
                o.set("k", J::s("int"));
                o.set("signed", J::Bool(false));
                o.set("bits", J::Int(it.bit_width().unwrap_or(64) as i128));
                o.set("name", J::s(it.name_str()));
            }
            TyKind::Float(ft) => {
                o.set("k", J::s("float"));
                o.set("name", J::s(ft.name_str()));
            }
            TyKind::Adt(def, args) => {
                o.set("k", J::s("adt"));
                o.set("path", J::Str(self.path(def.did())));
                o.set("did", J::Str(did_key(def.did())));
                let mut a = Vec::new();
                for ga in args.iter() {
                    if let Some(t2) = ga.as_type() {
                        a.push(self.ty(t2));
                    } else if let Some(c) = ga.as_const() {
                        a.push(J::Str(format!("{}", c)));
                    }
                }
                o.set("args", J::Arr(a));
            }
            TyKind::Str => o.set("k", J::s("str")),
            TyKind::Array(e, n) => {
                o.set("k", J::s("array"));
                let e = self.ty(*e);
                o.set("elem", e);
                match n.try_to_target_usize(self.tcx) {
                    Some(v) => o.set("len", J::Int(v as i128)),
                    None => o.set("len", J::Null),
                }
            }
            TyKind::Slice(e) => {
                o.set("k", J::s("slice"));
                let e = self.ty(*e);
                o.set("elem", e);
            }
            TyKind::RawPtr(p, m) => {
                o.set("k", J::s("ptr"));
                let e = self.ty(*p);
                o.set("to", e);
                o.set("mut", J::Bool(m.is_mut()));
            }
            TyKind::Ref(_, p, m) => {
                o.set("k", J::s("ref"));
                let e = self.ty(*p);
                o.set("to", e);
                o.set("mut", J::Bool(m.is_mut()));
            }
            TyKind::FnDef(d, args) => {
                o.set("k", J::s("fndef"));
                o.set("path", J::Str(self.path(*d)));
                o.set("did", J::Str(did_key(*d)));
                let mut a = Vec::new();
                for ga in args.iter() {
                    if let Some(t2) = ga.as_type() {
                        a.push(self.ty(t2));
                    }
                }
                o.set("args", J::Arr(a));
            }
            TyKind::FnPtr(..) => o.set("k", J::s("fnptr")),
            TyKind::Dynamic(..) => o.set("k", J::s("dyn")),
            TyKind::Closure(d, _args) => {
                o.set("k", J::s("closure"));
                o.set("path", J::Str(self.path(*d)));
                o.set("did", J::Str(did_key(*d)));
            }
            TyKind::Never => o.set("k", J::s("never")),
            TyKind::Tuple(ts) => {
                o.set("k", J::s("tuple"));
                let mut a = Vec::new();
                for t2 in ts.iter() {
                    a.push(self.ty(t2));
                }
                o.set("elems", J::Arr(a));
            }
            TyKind::Param(p) => {
                o.set("k", J::s("param"));
                o.set("name", J::Str(p.name.to_string()));
            }
            TyKind::Alias(..) => o.set("k", J::s("alias")),
            _ => o.set("k", J::s("other")),
        }
        self.types[i] = o;
        i
    }

    fn span(&self, sp: Span) -> J {
        let sm = self.tcx.sess.source_map();
        let mut o = J::obj();
        // location of the outermost call site (the user's code) ...
        let root = sp.source_callsite();
        let lo = sm.lookup_char_pos(root.lo());
        let hi = sm.lookup_char_pos(root.hi());
        o.set("file", J::Str(format!("{}", lo.file.name.prefer_local_unconditionally())));
        o.set("line", J::Int(lo.line as i128));
        o.set("hi", J::Int(hi.line as i128));
        o.set("col", J::Int(lo.col.0 as i128));
        if sp.from_expansion() {
            o.set("exp", J::Bool(true));
            // chain of macro names, innermost first
            let mut names = Vec::new();
            let mut cur = sp;
            let mut guard = 0;
            while cur.from_expansion() && guard < 16 {
                let ed = cur.ctxt().outer_expn_data();
                names.push(J::Str(format!("{}", ed.kind.descr())));
                cur = ed.call_site;
                guard += 1;
            }
            o.set("macros", J::Arr(names));
        }
        o
    }

    fn dump_crate(&mut self, crate_name: &str) -> J {
        let tcx = self.tcx;
        let mut doc = J::obj();
        doc.set("crate", J::Str(crate_name.to_string()));
        doc.set("nonce", J::Str(std::env::var("VPFACTS_NONCE").unwrap_or_default()));
        doc.set("config", J::Str(std::env::var("VPFACTS_CONFIG").unwrap_or_default()));
        doc.set("cfg_test", J::Bool(tcx.sess.is_test_crate()));

        // bodies
        let mut bodies = Vec::new();
        for ldid in tcx.hir_body_owners() {
            let did = ldid.to_def_id();
            let kind = tcx.def_kind(did);
            let k = match kind {
                DefKind::Fn => "fn",
                DefKind::AssocFn => "assoc_fn",
                DefKind::Closure => "closure",
                _ => continue,
            };
            // coroutine closures etc. are not present in this crate; skip defensively
            if tcx.is_coroutine(did) {
                continue;
            }
            let body = tcx.optimized_mir(did);
            let mut b = self.dump_body(did, body);
            b.set("kind", J::s(k));
            // promoted constants
            let proms = tcx.promoted_mir(did);
            let mut pv = Vec::new();
            for p in proms.iter() {
                pv.push(self.dump_body(did, p));
            }
            b.set("promoted", J::Arr(pv));
            bodies.push(b);
        }
        doc.set("bodies", J::Arr(bodies));

        // ADTs, traits, impls, consts
        let mut adts = Vec::new();
        let mut impls = Vec::new();
        let mut traits = Vec::new();
        let mut consts = Vec::new();
        for ldid in tcx.hir_crate_items(()).definitions() {
            let did = ldid.to_def_id();
            match tcx.def_kind(did) {
                DefKind::Struct | DefKind::Enum | DefKind::Union => {
                    let adt = tcx.adt_def(did);
                    let mut o = J::obj();
                    o.set("path", J::Str(self.path(did)));
                    o.set("did", J::Str(did_key(did)));
                    o.set("kind", J::s(if adt.is_enum() { "enum" } else if adt.is_union() { "union" } else { "struct" }));
                    o.set("span", self.span(tcx.def_span(did)));
                    let mut vs = Vec::new();
                    for (vi, v) in adt.variants().iter_enumerated() {
                        let mut vo = J::obj();
                        vo.set("name", J::Str(v.name.to_string()));
                        vo.set("index", J::Int(vi.as_u32() as i128));
                        if adt.is_enum() {
                            let d = adt.discriminant_for_variant(tcx, vi);
                            vo.set("discr", J::Int(d.val as i128));
                        }
                        let mut fs = Vec::new();
                        for f in v.fields.iter() {
                            let mut fo = J::obj();
                            fo.set("name", J::Str(f.name.to_string()));
                            let fty = tcx.type_of(f.did).instantiate_identity().skip_norm_wip();
                            fo.set("ty", self.ty(fty));
                            fs.push(fo);
                        }
                        vo.set("fields", J::Arr(fs));
                        vs.push(vo);
                    }
                    o.set("variants", J::Arr(vs));
                    adts.push(o);
                }
                DefKind::Trait => {
                    let mut o = J::obj();
                    o.set("path", J::Str(self.path(did)));
                    o.set("did", J::Str(did_key(did)));
                    let mut ms = Vec::new();
                    for it in tcx.associated_items(did).in_definition_order() {
                        if matches!(it.kind, ty::AssocKind::Fn { .. }) {
                            let mut mo = J::obj();
                            mo.set("name", J::Str(it.name().to_string()));
                            mo.set("did", J::Str(did_key(it.def_id)));
                            mo.set("path", J::Str(self.path(it.def_id)));
                            mo.set("has_default", J::Bool(it.defaultness(tcx).has_value()));
                            ms.push(mo);
                        }
                    }
                    o.set("methods", J::Arr(ms));
                    traits.push(o);
                }
                DefKind::Impl { .. } => {
                    let mut o = J::obj();
                    o.set("did", J::Str(did_key(did)));
                    let self_ty = tcx.type_of(did).instantiate_identity().skip_norm_wip();
                    o.set("self_ty", self.ty(self_ty));
                    o.set("span", self.span(tcx.def_span(did)));
                    if let Some(tr) = tcx.impl_opt_trait_ref(did) {
                        let tr = tr.instantiate_identity().skip_norm_wip();
                        o.set("trait", J::Str(self.path(tr.def_id)));
                        o.set("trait_did", J::Str(did_key(tr.def_id)));
                    }
                    let mut ms = Vec::new();
                    for it in tcx.associated_items(did).in_definition_order() {
                        if matches!(it.kind, ty::AssocKind::Fn { .. }) {
                            let mut mo = J::obj();
                            mo.set("name", J::Str(it.name().to_string()));
                            mo.set("did", J::Str(did_key(it.def_id)));
                            mo.set("path", J::Str(self.path(it.def_id)));
                            if let Some(tid) = it.trait_item_def_id() {
                                mo.set("trait_item", J::Str(did_key(tid)));
                            }
                            ms.push(mo);
                        }
                    }
                    o.set("methods", J::Arr(ms));
                    impls.push(o);
                }
                DefKind::Const { .. } | DefKind::AssocConst { .. } => {
                    let mut o = J::obj();
                    o.set("path", J::Str(self.path(did)));
                    o.set("did", J::Str(did_key(did)));
                    let cty = tcx.type_of(did).instantiate_identity().skip_norm_wip();
                    o.set("ty", self.ty(cty));
                    // only evaluate non-generic constants
                    if tcx.generics_of(did).is_empty() && !tcx.generics_of(did).has_self {
                        if let Ok(v) = tcx.const_eval_poly(did) {
                            if let Some(si) = v.try_to_scalar_int() {
                                o.set("value", scalar_int_json(si, cty));
                            }
                        }
                    }
                    consts.push(o);
                }
                _ => {}
            }
        }
        doc.set("adts", J::Arr(adts));
        doc.set("traits", J::Arr(traits));
        doc.set("impls", J::Arr(impls));
        doc.set("consts", J::Arr(consts));
        let types = std::mem::take(&mut self.types);
        doc.set("types", J::Arr(types));
        doc
    }

    fn dump_body(&mut self, did: DefId, body: &Body<'tcx>) -> J {
        let tcx = self.tcx;
        let mut b = J::obj();
        b.set("path", J::Str(self.path(did)));
        b.set("did", J::Str(did_key(did)));
        b.set("span", self.span(body.span));
        b.set("name", J::Str(tcx.opt_item_name(did).map(|s| s.to_string()).unwrap_or_default()));
        // enclosing impl / parent
        let parent = tcx.parent(did);
        b.set("parent", J::Str(did_key(parent)));
        b.set("parent_path", J::Str(self.path(parent)));
        if let DefKind::Impl { .. } = tcx.def_kind(parent) {
            let st = tcx.type_of(parent).instantiate_identity().skip_norm_wip();
            b.set("impl_self", self.ty(st));
            if let Some(tr) = tcx.impl_opt_trait_ref(parent) {
                let tr = tr.instantiate_identity().skip_norm_wip();
                b.set("impl_trait", J::Str(self.path(tr.def_id)));
            }
        }
        if matches!(tcx.def_kind(did), DefKind::Fn | DefKind::AssocFn) {
            b.set("vis", J::Str(format!("{:?}", tcx.visibility(did))));
        }
        b.set("arg_count", J::Int(body.arg_count as i128));
        // locals
        let mut names: HashMap<usize, String> = HashMap::new();
        for vdi in &body.var_debug_info {
            if let rustc_middle::mir::VarDebugInfoContents::Place(p) = &vdi.value {
                if p.projection.is_empty() {
                    names.entry(p.local.as_usize()).or_insert_with(|| vdi.name.to_string());
                }
            }
        }
        // upvar debug names for closures: _1.N -> name
        let mut upvars = Vec::new();
        for vdi in &body.var_debug_info {
            if let rustc_middle::mir::VarDebugInfoContents::Place(p) = &vdi.value {
                if !p.projection.is_empty() && p.local.as_usize() == 1 {
                    let mut o = J::obj();
                    o.set("name", J::Str(vdi.name.to_string()));
                    o.set("place", self.place(body, p));
                    upvars.push(o);
                }
            }
        }
        b.set("upvars", J::Arr(upvars));
        let mut locals = Vec::new();
        for (l, decl) in body.local_decls.iter_enumerated() {
            let mut o = J::obj();
            o.set("ty", self.ty(decl.ty));
            if let Some(n) = names.get(&l.as_usize()) {
                o.set("name", J::Str(n.clone()));
            }
            if decl.mutability.is_mut() {
                o.set("mut", J::Bool(true));
            }
            locals.push(o);
        }
        b.set("locals", J::Arr(locals));
        let mut blocks = Vec::new();
        for (_bb, data) in body.basic_blocks.iter_enumerated() {
            blocks.push(self.block(did, body, data));
        }
        b.set("blocks", J::Arr(blocks));
        b
    }

    fn block(&mut self, did: DefId, body: &Body<'tcx>, data: &BasicBlockData<'tcx>) -> J {
        let mut o = J::obj();
        if data.is_cleanup {
            o.set("cleanup", J::Bool(true));
        }
        let mut stmts = Vec::new();
        for st in &data.statements {
            let mut s = J::obj();
            match &st.kind {
                StatementKind::Assign(bx) => {
                    let (place, rv) = &**bx;
                    s.set("k", J::s("assign"));
                    s.set("place", self.place(body, place));
                    s.set("rv", self.rvalue(body, rv));
                }
                StatementKind::SetDiscriminant { place, variant_index } => {
                    s.set("k", J::s("set_discr"));
                    s.set("place", self.place(body, place));
                    s.set("variant", J::Int(variant_index.as_u32() as i128));
                }
                StatementKind::Intrinsic(i) => {
                    s.set("k", J::s("intrinsic"));
                    s.set("text", J::Str(format!("{:?}", i)));
                }
                StatementKind::StorageLive(_)
                | StatementKind::StorageDead(_)
                | StatementKind::Nop
                | StatementKind::Coverage(..)
                | StatementKind::ConstEvalCounter
                | StatementKind::FakeRead(..)
                | StatementKind::PlaceMention(..)
                | StatementKind::AscribeUserType(..)
                | StatementKind::BackwardIncompatibleDropHint { .. } => continue,
            }
            s.set("span", self.span(st.source_info.span));
            stmts.push(s);
        }
        o.set("stmts", J::Arr(stmts));
        let term = data.terminator();
        let mut t = J::obj();
        t.set("span", self.span(term.source_info.span));
        match &term.kind {
            TerminatorKind::Goto { target } => {
                t.set("k", J::s("goto"));
                t.set("target", J::Int(target.as_usize() as i128));
            }
            TerminatorKind::SwitchInt { discr, targets } => {
                t.set("k", J::s("switch"));
                t.set("discr", self.operand(body, discr));
                let mut vals = Vec::new();
                let mut tgts = Vec::new();
                for (v, bb) in targets.iter() {
                    vals.push(J::Int(v as i128));
                    tgts.push(J::Int(bb.as_usize() as i128));
                }
                t.set("values", J::Arr(vals));
                t.set("targets", J::Arr(tgts));
                t.set("otherwise", J::Int(targets.otherwise().as_usize() as i128));
            }
            TerminatorKind::UnwindResume => t.set("k", J::s("resume")),
            TerminatorKind::UnwindTerminate(_) => t.set("k", J::s("terminate")),
            TerminatorKind::Return => t.set("k", J::s("return")),
            TerminatorKind::Unreachable => t.set("k", J::s("unreachable")),
            TerminatorKind::Drop { place, target, unwind, .. } => {
                t.set("k", J::s("drop"));
                t.set("place", self.place(body, place));
                t.set("target", J::Int(target.as_usize() as i128));
                t.set("unwind", unwind_json(unwind));
            }
            TerminatorKind::Call { func, args, destination, target, unwind, fn_span, .. } => {
                t.set("k", J::s("call"));
                t.set("func", self.operand(body, func));
                let mut av = Vec::new();
                for a in args.iter() {
                    av.push(self.operand(body, &a.node));
                }
                t.set("args", J::Arr(av));
                t.set("dest", self.place(body, destination));
                match target {
                    Some(bb) => t.set("target", J::Int(bb.as_usize() as i128)),
                    None => t.set("target", J::Null),
                }
                t.set("unwind", unwind_json(unwind));
                t.set("fn_span", self.span(*fn_span));
                self.callee_info(did, body, func, &mut t);
            }
            TerminatorKind::TailCall { .. } => t.set("k", J::s("tailcall")),
            TerminatorKind::Assert { cond, expected, msg, target, unwind } => {
                t.set("k", J::s("assert"));
                t.set("cond", self.operand(body, cond));
                t.set("expected", J::Bool(*expected));
                t.set("target", J::Int(target.as_usize() as i128));
                t.set("unwind", unwind_json(unwind));
                let mut m = J::obj();
                match &**msg {
                    AssertKind::BoundsCheck { len, index } => {
                        m.set("k", J::s("bounds"));
                        m.set("len", self.operand(body, len));
                        m.set("index", self.operand(body, index));
                    }
                    AssertKind::Overflow(op, a, b) => {
                        m.set("k", J::s("overflow"));
                        m.set("op", J::Str(format!("{:?}", op)));
                        m.set("a", self.operand(body, a));
                        m.set("b", self.operand(body, b));
                    }
                    AssertKind::OverflowNeg(a) => {
                        m.set("k", J::s("overflow_neg"));
                        m.set("a", self.operand(body, a));
                    }
                    AssertKind::DivisionByZero(a) => {
                        m.set("k", J::s("div_zero"));
                        m.set("a", self.operand(body, a));
                    }
                    AssertKind::RemainderByZero(a) => {
                        m.set("k", J::s("rem_zero"));
                        m.set("a", self.operand(body, a));
                    }
                    AssertKind::MisalignedPointerDereference { .. } => m.set("k", J::s("misaligned")),
                    AssertKind::NullPointerDereference => m.set("k", J::s("null_deref")),
                    AssertKind::InvalidEnumConstruction(_) => m.set("k", J::s("invalid_enum")),
                    _ => m.set("k", J::s("other")),
                }
                t.set("msg", m);
            }
            TerminatorKind::Yield { .. } => t.set("k", J::s("yield")),
            TerminatorKind::CoroutineDrop => t.set("k", J::s("coroutine_drop")),
            TerminatorKind::FalseEdge { real_target, .. } => {
                t.set("k", J::s("goto"));
                t.set("target", J::Int(real_target.as_usize() as i128));
            }
            TerminatorKind::FalseUnwind { real_target, .. } => {
                t.set("k", J::s("goto"));
                t.set("target", J::Int(real_target.as_usize() as i128));
            }
            TerminatorKind::InlineAsm { .. } => t.set("k", J::s("asm")),
        }
        o.set("term", t);
        o
    }

    fn callee_info(&mut self, caller: DefId, _body: &Body<'tcx>, func: &Operand<'tcx>, t: &mut J) {
        let tcx = self.tcx;
        let fty = match func {
            Operand::Constant(c) => c.const_.ty(),
            _ => {
                t.set("callee_kind", J::s("indirect"));
                return;
            }
        };
        if let TyKind::FnDef(d, args) = fty.kind() {
            let mut c = J::obj();
            c.set("path", J::Str(self.path(*d)));
            c.set("did", J::Str(did_key(*d)));
            c.set("local", J::Bool(d.is_local()));
            c.set("full", J::Str(tcx.def_path_str_with_args(*d, args)));
            c.set("name", J::Str(tcx.opt_item_name(*d).map(|s| s.to_string()).unwrap_or_default()));
            let mut a = Vec::new();
            for ga in args.iter() {
                if let Some(t2) = ga.as_type() {
                    a.push(self.ty(t2));
                }
            }
            c.set("targs", J::Arr(a));
            // trait method?
            if let Some(tr) = tcx.trait_of_assoc(*d) {
                c.set("trait", J::Str(self.path(tr)));
                c.set("trait_local", J::Bool(tr.is_local()));
                if let Some(st) = args.types().next() {
                    c.set("self_ty", self.ty(st));
                }
            } else if let Some(imp) = tcx.impl_of_assoc(*d) {
                let st = tcx.type_of(imp).instantiate_identity().skip_norm_wip();
                c.set("impl_self", self.ty(st));
            }
            // resolution in the caller's environment
            let env = TypingEnv::post_analysis(tcx, caller);
            let res = std::panic::catch_unwind(std::panic::AssertUnwindSafe(|| Instance::try_resolve(tcx, env, *d, args)));
            if let Ok(Ok(Some(inst))) = res {
                let rd = inst.def_id();
                c.set("resolved", J::Str(self.path(rd)));
                c.set("resolved_did", J::Str(did_key(rd)));
                c.set("resolved_local", J::Bool(rd.is_local()));
                c.set("resolved_kind", J::Str(format!("{:?}", std::mem::discriminant(&inst.def)).chars().take(0).collect::<String>() + instance_kind(&inst)));
            }
            t.set("callee", c);
        } else {
            t.set("callee_kind", J::s("indirect"));
        }
    }

    fn place(&mut self, body: &Body<'tcx>, p: &Place<'tcx>) -> J {
        let tcx = self.tcx;
        let mut o = J::obj();
        o.set("l", J::Int(p.local.as_usize() as i128));
        if p.projection.is_empty() {
            return o;
        }
        let mut pty = rustc_middle::mir::PlaceTy::from_ty(body.local_decls[p.local].ty);
        let mut projs = Vec::new();
        for elem in p.projection.iter() {
            let mut e = J::obj();
            match elem {
                PlaceElem::Deref => e.set("k", J::s("deref")),
                PlaceElem::Field(fi, fty) => {
                    e.set("k", J::s("field"));
                    e.set("i", J::Int(fi.as_u32() as i128));
                    e.set("ty", self.ty(fty));
                    // field name / owner
                    match pty.ty.kind() {
                        TyKind::Adt(def, _) => {
                            let vi = pty.variant_index.unwrap_or(rustc_abi::FIRST_VARIANT);
                            let v = def.variant(vi);
                            if let Some(f) = v.fields.get(fi) {
                                e.set("n", J::Str(f.name.to_string()));
                            }
                            e.set("adt", J::Str(self.path(def.did())));
                            if def.is_enum() {
                                e.set("variant", J::Str(v.name.to_string()));
                            }
                        }
                        TyKind::Closure(..) => e.set("adt", J::s("{closure}")),
                        TyKind::Tuple(..) => e.set("adt", J::s("{tuple}")),
                        _ => {}
                    }
                }
                PlaceElem::Index(l) => {
                    e.set("k", J::s("index"));
                    e.set("l", J::Int(l.as_usize() as i128));
                }
                PlaceElem::ConstantIndex { offset, min_length, from_end } => {
                    e.set("k", J::s("cidx"));
                    e.set("offset", J::Int(offset as i128));
                    e.set("min", J::Int(min_length as i128));
                    e.set("from_end", J::Bool(from_end));
                }
                PlaceElem::Subslice { from, to, from_end } => {
                    e.set("k", J::s("subslice"));
                    e.set("from", J::Int(from as i128));
                    e.set("to", J::Int(to as i128));
                    e.set("from_end", J::Bool(from_end));
                }
                PlaceElem::Downcast(name, vi) => {
                    e.set("k", J::s("downcast"));
                    e.set("i", J::Int(vi.as_u32() as i128));
                    if let Some(n) = name {
                        e.set("v", J::Str(n.to_string()));
                    }
                    if let TyKind::Adt(def, _) = pty.ty.kind() {
                        e.set("adt", J::Str(self.path(def.did())));
                    }
                }
                PlaceElem::OpaqueCast(_) => e.set("k", J::s("opaque_cast")),
                PlaceElem::UnwrapUnsafeBinder(_) => e.set("k", J::s("unwrap_binder")),
            }
            pty = pty.projection_ty(tcx, elem);
            projs.push(e);
        }
        o.set("p", J::Arr(projs));
        o.set("ty", self.ty(pty.ty));
        o
    }

    fn operand(&mut self, body: &Body<'tcx>, op: &Operand<'tcx>) -> J {
        let mut o = J::obj();
        match op {
            Operand::Copy(p) => {
                o.set("k", J::s("copy"));
                o.set("place", self.place(body, p));
            }
            Operand::Move(p) => {
                o.set("k", J::s("move"));
                o.set("place", self.place(body, p));
            }
            Operand::Constant(c) => {
                o.set("k", J::s("const"));
                self.constant(&c.const_, &mut o);
            }
            #[allow(unreachable_patterns)]
            _ => o.set("k", J::s("other")),
        }
        o
    }

    fn constant(&mut self, c: &Const<'tcx>, o: &mut J) {
        let tcx = self.tcx;
        let cty = c.ty();
        o.set("ty", self.ty(cty));
        let mut text = String::new();
        let _ = write!(text, "{}", c);
        o.set("text", J::Str(text));
        match cty.kind() {
            TyKind::FnDef(d, _) => {
                o.set("fn", J::Str(self.path(*d)));
                o.set("fn_did", J::Str(did_key(*d)));
                return;
            }
            _ => {}
        }
        if let Const::Unevaluated(uv, _) = c {
            o.set("uneval", J::Str(self.path(uv.def)));
            if let Some(p) = uv.promoted {
                o.set("promoted", J::Int(p.as_usize() as i128));
                return;
            }
        }
        let env = TypingEnv::fully_monomorphized();
        // only scalar-like types are safe to evaluate here
        let scalar_like = matches!(
            cty.kind(),
            TyKind::Bool | TyKind::Char | TyKind::Int(_) | TyKind::Uint(_) | TyKind::Float(_)
        );
        let evaluable = !matches!(c, Const::Unevaluated(uv, _) if !uv.args.is_empty());
        if scalar_like && evaluable {
            let r = std::panic::catch_unwind(std::panic::AssertUnwindSafe(|| c.try_eval_scalar_int(tcx, env)));
            if let Ok(Some(si)) = r {
                o.set("v", scalar_int_json(si, cty));
            }
        } else if evaluable {
            // references to statics / string literals
            let val = match c {
                Const::Val(v, _) => Some(*v),
                Const::Unevaluated(..) => {
                    let r = std::panic::catch_unwind(std::panic::AssertUnwindSafe(|| c.eval(tcx, env, rustc_span::DUMMY_SP)));
                    match r {
                        Ok(Ok(v)) => Some(v),
                        Ok(Err(_)) => {
                            o.set("eval_err", J::Bool(true));
                            None
                        }
                        _ => None,
                    }
                }
                _ => None,
            };
            if let Some(v) = val {
                match v {
                    ConstValue::Scalar(Scalar::Ptr(ptr, _)) => {
                        let aid = ptr.provenance.alloc_id();
                        match tcx.global_alloc(aid) {
                            GlobalAlloc::Static(sd) => {
                                o.set("static", J::Str(self.path(sd)));
                            }
                            GlobalAlloc::Memory(m) => {
                                // e.g. &[u8; N] byte string literals: dump bytes when small and pointer-free
                                let alloc = m.inner();
                                if alloc.provenance().ptrs().is_empty() && alloc.len() <= 256 {
                                    let bytes = alloc.inspect_with_uninit_and_ptr_outside_interpreter(0..alloc.len());
                                    o.set("bytes", J::Arr(bytes.iter().map(|b| J::Int(*b as i128)).collect()));
                                }
                            }
                            _ => {}
                        }
                    }
                    ConstValue::Slice { alloc_id, meta } => {
                        let alloc = tcx.global_alloc(alloc_id).unwrap_memory().inner();
                        let len = meta as usize;
                        if len <= 4096 && len <= alloc.len() && alloc.provenance().ptrs().is_empty() {
                            let bytes = alloc.inspect_with_uninit_and_ptr_outside_interpreter(0..len);
                            if let TyKind::Ref(_, inner, _) = cty.kind() {
                                if inner.is_str() {
                                    o.set("str", J::Str(String::from_utf8_lossy(bytes).to_string()));
                                } else {
                                    o.set("bytes", J::Arr(bytes.iter().map(|b| J::Int(*b as i128)).collect()));
                                }
                            }
                        }
                        o.set("slice_len", J::Int(meta as i128));
                    }
                    ConstValue::ZeroSized => o.set("zst", J::Bool(true)),
                    ConstValue::Indirect { alloc_id, offset } => {
                        // a small byte array constant (`const TPID: [u8; 2] = [0x81, 0x00]`): dump its bytes
                        if let TyKind::Array(elem, _) = cty.kind() {
                            if matches!(elem.kind(), TyKind::Uint(rustc_middle::ty::UintTy::U8)) {
                                if let GlobalAlloc::Memory(m) = tcx.global_alloc(alloc_id) {
                                    let alloc = m.inner();
                                    let off = offset.bytes() as usize;
                                    if let Ok(layout) = tcx.layout_of(env.as_query_input(cty)) {
                                        let n = layout.size.bytes() as usize;
                                        if n <= 256 && alloc.len() >= off + n && alloc.provenance().ptrs().is_empty() {
                                            let bytes = alloc.inspect_with_uninit_and_ptr_outside_interpreter(off..off + n);
                                            o.set("bytes", J::Arr(bytes.iter().map(|b| J::Int(*b as i128)).collect()));
                                        }
                                    }
                                }
                            }
                        }
                        // fat pointer (&[T] / &str) stored in memory: the length is the second word
                        if let TyKind::Ref(_, inner, _) = cty.kind() {
                            if inner.is_slice() || inner.is_str() {
                                if let GlobalAlloc::Memory(m) = tcx.global_alloc(alloc_id) {
                                    let alloc = m.inner();
                                    let off = offset.bytes() as usize;
                                    if alloc.len() >= off + 16 {
                                        let bytes = alloc.inspect_with_uninit_and_ptr_outside_interpreter(off + 8..off + 16);
                                        let mut b8 = [0u8; 8];
                                        b8.copy_from_slice(bytes);
                                        o.set("slice_len", J::Int(u64::from_le_bytes(b8) as i128));
                                    }
                                }
                            }
                        }
                    }
                    ConstValue::Scalar(_) => o.set("scalar_other", J::Bool(true)),
                }
            }
        }
    }

    fn rvalue(&mut self, body: &Body<'tcx>, rv: &Rvalue<'tcx>) -> J {
        let mut o = J::obj();
        match rv {
            Rvalue::Use(op, _) => {
                o.set("k", J::s("use"));
                o.set("op", self.operand(body, op));
            }
            Rvalue::Repeat(op, n) => {
                o.set("k", J::s("repeat"));
                o.set("op", self.operand(body, op));
                match n.try_to_target_usize(self.tcx) {
                    Some(v) => o.set("count", J::Int(v as i128)),
                    None => o.set("count", J::Null),
                }
            }
            Rvalue::Ref(_, bk, p) => {
                o.set("k", J::s("ref"));
                o.set("mut", J::Bool(matches!(bk, rustc_middle::mir::BorrowKind::Mut { .. })));
                o.set("place", self.place(body, p));
            }
            Rvalue::ThreadLocalRef(d) => {
                o.set("k", J::s("tls"));
                o.set("path", J::Str(self.path(*d)));
            }
            Rvalue::RawPtr(k, p) => {
                o.set("k", J::s("rawptr"));
                o.set("mut", J::Bool(matches!(k, rustc_middle::mir::RawPtrKind::Mut)));
                o.set("place", self.place(body, p));
            }
            Rvalue::Cast(k, op, t) => {
                o.set("k", J::s("cast"));
                o.set("cast", J::Str(format!("{:?}", k)));
                o.set("op", self.operand(body, op));
                o.set("ty", self.ty(*t));
            }
            Rvalue::BinaryOp(bop, ops) => {
                o.set("k", J::s("binop"));
                o.set("op", J::Str(format!("{:?}", bop)));
                o.set("a", self.operand(body, &ops.0));
                o.set("b", self.operand(body, &ops.1));
            }
            Rvalue::UnaryOp(uop, a) => {
                o.set("k", J::s("unop"));
                o.set("op", J::Str(format!("{:?}", uop)));
                o.set("a", self.operand(body, a));
            }
            Rvalue::Discriminant(p) => {
                o.set("k", J::s("discr"));
                o.set("place", self.place(body, p));
            }
            Rvalue::Aggregate(kind, ops) => {
                o.set("k", J::s("aggregate"));
                match &**kind {
                    AggregateKind::Array(t) => {
                        o.set("agg", J::s("array"));
                        o.set("elem", self.ty(*t));
                    }
                    AggregateKind::Tuple => o.set("agg", J::s("tuple")),
                    AggregateKind::Adt(d, vi, _, _, active) => {
                        o.set("agg", J::s("adt"));
                        o.set("adt", J::Str(self.path(*d)));
                        let def = self.tcx.adt_def(*d);
                        let v = def.variant(*vi);
                        o.set("variant", J::Str(v.name.to_string()));
                        o.set("variant_index", J::Int(vi.as_u32() as i128));
                        o.set("is_enum", J::Bool(def.is_enum()));
                        o.set("fields", J::Arr(v.fields.iter().map(|f| J::Str(f.name.to_string())).collect()));
                        if let Some(a) = active {
                            o.set("active_field", J::Int(a.as_u32() as i128));
                        }
                    }
                    AggregateKind::Closure(d, _) => {
                        o.set("agg", J::s("closure"));
                        o.set("closure", J::Str(self.path(*d)));
                        o.set("closure_did", J::Str(did_key(*d)));
                    }
                    AggregateKind::RawPtr(..) => o.set("agg", J::s("rawptr")),
                    _ => o.set("agg", J::s("other")),
                }
                let mut v = Vec::new();
                for op in ops.iter() {
                    v.push(self.operand(body, op));
                }
                o.set("ops", J::Arr(v));
            }
            Rvalue::CopyForDeref(p) => {
                o.set("k", J::s("use"));
                let mut op = J::obj();
                op.set("k", J::s("copy"));
                op.set("place", self.place(body, p));
                o.set("op", op);
            }
            Rvalue::WrapUnsafeBinder(..) => o.set("k", J::s("other")),
        }
        o
    }
}

fn instance_kind(inst: &Instance<'_>) -> &'static str {
    use rustc_middle::ty::InstanceKind::*;
    match inst.def {
        Item(_) => "item",
        Intrinsic(_) => "intrinsic",
        Virtual(..) => "virtual",
        ClosureOnceShim { .. } => "closure_once_shim",
        FnPtrShim(..) => "fn_ptr_shim",
        DropGlue(..) => "drop_glue",
        CloneShim(..) => "clone_shim",
        ReifyShim(..) => "reify_shim",
        VTableShim(..) => "vtable_shim",
        _ => "other",
    }
}

fn scalar_int_json(si: ty::ScalarInt, t: Ty<'_>) -> J {
    let size = si.size();
    let bits = si.to_bits(size);
    match t.kind() {
        TyKind::Int(_) => {
            let n = size.bits();
            let v = if n < 128 && (bits >> (n - 1)) & 1 == 1 { (bits as i128) - (1i128 << n) } else { bits as i128 };
            J::Int(v)
        }
        TyKind::Float(_) => {
            let mut o = J::obj();
            o.set("float_bits", J::Int(bits as i128));
            o
        }
        _ => J::Int(bits as i128),
    }
}

fn unwind_json(u: &UnwindAction) -> J {
    match u {
        UnwindAction::Continue => J::s("continue"),
        UnwindAction::Unreachable => J::s("unreachable"),
        UnwindAction::Terminate(_) => J::s("terminate"),
        UnwindAction::Cleanup(bb) => J::Int(bb.as_usize() as i128),
    }
}

fn main() {
    let mut args: Vec<String> = std::env::args().collect();
    // RUSTC_WORKSPACE_WRAPPER: argv[1] is the path of the real rustc; drop it
    if args.len() > 1 && (args[1].ends_with("rustc") || args[1].contains("/rustc")) {
        args.remove(1);
    }
    let mut cb = Facts;
    rustc_driver::run_compiler(&args, &mut cb);
}
