"""A8: panic-site enumeration."""
from .callgraph import callee_is, strip_generics
from .facts import op_const

# external functions that may panic depending on their arguments / receiver state
PANICKING_API = {
    # name suffix (generic-free def path)      : short class
    "option::Option::unwrap": "unwrap",
    "option::Option::expect": "expect",
    "result::Result::unwrap": "unwrap",
    "result::Result::expect": "expect",
    "result::Result::unwrap_err": "unwrap",
    "result::Result::expect_err": "expect",
    "ops::Index::index": "index",
    "ops::IndexMut::index_mut": "index",
    "slice::<impl [T]>::copy_from_slice": "slice-len",
    "slice::<impl [T]>::clone_from_slice": "slice-len",
    "slice::<impl [T]>::split_at": "split",
    "slice::<impl [T]>::split_at_mut": "split",
    "slice::<impl [T]>::copy_within": "slice-range",
    "slice::<impl [T]>::swap": "index",
    "slice::<impl [T]>::chunks": "nonzero",
    "slice::<impl [T]>::chunks_exact": "nonzero",
    "slice::<impl [T]>::windows": "nonzero",
    "slice::<impl [T]>::rotate_left": "slice-range",
    "slice::<impl [T]>::rotate_right": "slice-range",
    "vec::Vec::swap_remove": "index",
    "vec::Vec::remove": "index",
    "vec::Vec::insert": "index",
    "vec::Vec::split_off": "index",
    "vec::Vec::drain": "slice-range",
    "vec::Vec::truncate": None,
    "smallvec::SmallVec::swap_remove": "index",
    "smallvec::SmallVec::remove": "index",
    "smallvec::SmallVec::insert": "index",
    "smallvec::SmallVec::drain": "slice-range",
    "string::String::remove": "index",
    "string::String::insert": "index",
    "string::String::split_off": "index",
    "str::<impl str>::split_at": "split",
    "cell::RefCell::borrow": "refcell",
    "cell::RefCell::borrow_mut": "refcell",
    "time::Duration::from_secs_f32": "float-range",
    "time::Duration::from_secs_f64": "float-range",
    "char::from_digit": "radix",
    "num::<impl u8>::from_str_radix": "radix",
    "util::MsgBuffer::set_length": "msgbuf",
    # further std / third-party APIs with a documented panic condition
    "slice::<impl [T]>::swap_with_slice": "slice-len",
    "slice::<impl [T]>::chunks_mut": "nonzero",
    "slice::<impl [T]>::chunks_exact_mut": "nonzero",
    "slice::<impl [T]>::rchunks": "nonzero",
    "slice::<impl [T]>::rchunks_mut": "nonzero",
    "slice::<impl [T]>::select_nth_unstable": "index",
    "slice::<impl [T]>::split_at_unchecked": "split",
    "slice::<impl [T]>::as_chunks": "nonzero",
    "iter::Iterator::step_by": "nonzero",
    "vec::Vec::extend_from_within": "slice-range",
    "vec::Vec::splice": "slice-range",
    "vec::Vec::split_at_spare_mut": None,
    "collections::VecDeque::insert": "index",
    "collections::VecDeque::swap": "index",
    "collections::VecDeque::range": "slice-range",
    "collections::VecDeque::drain": "slice-range",
    "string::String::truncate": "index",
    "string::String::drain": "slice-range",
    "string::String::replace_range": "slice-range",
    "string::String::insert_str": "index",
    "str::<impl str>::split_at_mut": "split",
    "smallvec::SmallVec::from_buf_and_len": "slice-len",
    "smallvec::SmallVec::insert_many": "index",
    "smallvec::SmallVec::insert_from_slice": "index",
    "smallvec::SmallVec::grow": "slice-len",
    "byteorder::ReadBytesExt::read_uint": "nbytes",
    "byteorder::ReadBytesExt::read_int": "nbytes",
    "byteorder::ReadBytesExt::read_uint128": "nbytes",
    "byteorder::ReadBytesExt::read_int128": "nbytes",
    "byteorder::WriteBytesExt::write_uint": "nbytes",
    "byteorder::WriteBytesExt::write_int": "nbytes",
    "byteorder::ByteOrder::read_u16": "slice-len",
    "byteorder::ByteOrder::read_u32": "slice-len",
    "byteorder::ByteOrder::read_u64": "slice-len",
    "byteorder::ByteOrder::read_u128": "slice-len",
    "byteorder::ByteOrder::read_uint": "slice-len",
    "byteorder::ByteOrder::write_u16": "slice-len",
    "byteorder::ByteOrder::write_u32": "slice-len",
    "byteorder::ByteOrder::write_u64": "slice-len",
    "byteorder::ByteOrder::write_u128": "slice-len",
    "byteorder::ByteOrder::write_uint": "slice-len",
    "time::Duration::new": "overflow",
    "time::Duration::from_secs_f32": "float-range",
    "num::<impl u32>::ilog2": "nonzero",
    "num::<impl u64>::ilog2": "nonzero",
    "num::<impl usize>::ilog2": "nonzero",
    "num::<impl u32>::ilog10": "nonzero",
    "num::<impl u64>::ilog10": "nonzero",
    "num::<impl usize>::ilog10": "nonzero",
    "num::<impl u32>::from_str_radix": "radix",
    "num::<impl u64>::from_str_radix": "radix",
    "num::<impl usize>::from_str_radix": "radix",
    "char::methods::<impl char>::to_digit": "radix",
    "char::methods::<impl char>::is_digit": "radix",
    "process::exit": "exit",
    "process::abort": "exit",
    "thread::spawn": "spawn",
    "thread::LocalKey::with": "tls",
}

PANIC_ENTRY_PREFIXES = ("core::panicking::", "std::rt::begin_panic", "std::panicking::", "core::option::unwrap_failed",
                        "core::result::unwrap_failed", "core::option::expect_failed", "core::slice::index::slice_",
                        "core::str::slice_error_fail", "core::cell::panic_already", "alloc::raw_vec::capacity_overflow",
                        "alloc::alloc::handle_alloc_error", "core::num::from_str_radix_panic")

IGNORED_ASSERTS = ("misaligned", "null_deref", "invalid_enum")


class Site:
    __slots__ = ("body", "bi", "kind", "sig", "term", "detail")

    def __init__(self, body, bi, kind, sig, term, detail=""):
        self.body = body
        self.bi = bi
        self.kind = kind      # assert / panic / api
        self.sig = sig        # stable signature: assert kind(+op) / macro name / callee path (+ receiver type)
        self.term = term
        self.detail = detail

    def key(self):
        """Stable key: (file, kind, signature). No line numbers, no function names."""
        return "%s|%s|%s" % (self.body.file, self.kind, self.sig)

    def where(self):
        sp = self.term["span"]
        return "%s:%d in %s" % (sp["file"], sp["line"], self.body.path)


def api_class(term):
    c = term.get("callee")
    if not c:
        return None, None
    for p in (c.get("path"),):
        if not p:
            continue
        p2 = strip_generics(p)
        for suf, cls in PANICKING_API.items():
            if p2 == suf or p2.endswith("::" + suf):
                if cls is None:
                    return None, None
                return cls, suf
    return None, None


def macro_of(term):
    ms = term["span"].get("macros") or []
    for m in ms:
        for name in ("assert!", "assert_eq!", "assert_ne!", "debug_assert!", "unreachable!", "unimplemented!", "todo!", "panic!",
                     "fail!", "try_fail!"):
            if m == name:
                return name
    return ms[-1] if ms else "panic"


def sites_in(body, blocks=None):
    """Enumerate panic sites of a body restricted to the given block set."""
    out = []
    prog = body.prog
    for bi in sorted(body.cfg.reach if blocks is None else blocks):
        if bi not in body.cfg.reach:
            continue
        t = body.blocks[bi]["term"]
        if t["k"] == "assert":
            mk = t["msg"]["k"]
            if mk in IGNORED_ASSERTS:
                continue
            sig = mk + (":" + t["msg"]["op"] if "op" in t["msg"] else "")
            out.append(Site(body, bi, "assert", sig, t))
        elif t["k"] == "call":
            c = t.get("callee")
            if not c:
                # indirect call through fn pointer / closure object: not a panic by itself
                continue
            path = c.get("path") or ""
            if path.startswith(PANIC_ENTRY_PREFIXES):
                out.append(Site(body, bi, "panic", macro_of(t), t, path))
                continue
            cls, suf = api_class(t)
            if cls is not None:
                recv = ""
                if c.get("targs"):
                    recv = prog.ty(c["targs"][0]).s
                elif "impl_self" in c:
                    recv = prog.ty(c["impl_self"]).s
                sig = suf
                if cls in ("index", "unwrap", "expect") and c.get("targs"):
                    sig = "%s<%s>" % (suf, ",".join(prog.ty(x).s for x in c["targs"][:2]))
                out.append(Site(body, bi, "api:" + cls, sig, t))
    return out
