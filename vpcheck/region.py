"""Interprocedural regions: pre-gate (unauthenticated) region (A5/A6), write summaries."""
from .facts import op_place, op_local, op_const
from .callgraph import callee_is
from .mirutil import (success_edges, gate_functions, root_place, place_is_field, defuse, adt_match)


class Gate:
    """A gate: predicate over call terminators + derived gate functions."""

    def __init__(self, prog, name, pred, fold=None):
        self.prog = prog
        self.name = name
        self.pred = pred
        self.fold = fold
        self.funcs = gate_functions(prog, pred, dead_edges_of=(lambda b: folded_dead_edges(b, fold)) if fold else None)
        self._oc = {}

    def is_gate_call(self, body, term):
        if self.pred(term):
            return True
        for kind, d in self.prog.cg.resolve(body, term):
            if d in self.funcs:
                return True
        return False

    def gate_calls(self, body):
        return [bi for bi, t in body.calls() if self.is_gate_call(body, t)]

    def ok_edges(self, body):
        """Union of success edges of all gate calls in body."""
        key = body.did
        if key not in self._oc:
            edges = set()
            for bi in self.gate_calls(body):
                oc = success_edges(body, bi)
                edges |= oc.ok_edges
            self._oc[key] = edges
        return self._oc[key]

    def pre_blocks(self, body, fold=None):
        """Blocks of body reachable from its entry without crossing a gate success edge.
        fold: optional dict {(adt, field): bool} - SwitchInt on a load of that field is folded (A6)."""
        cfg = body.cfg
        avoid = set(self.ok_edges(body))
        if fold:
            avoid |= folded_dead_edges(body, fold)
        return cfg.reachable_from([0], avoid_edges=avoid)

    def all_blocks(self, body, fold=None):
        cfg = body.cfg
        avoid = set()
        if fold:
            avoid |= folded_dead_edges(body, fold)
        return cfg.reachable_from([0], avoid_edges=avoid)


def folded_dead_edges(body, fold):
    """Edges that are dead when the given boolean fields have the given values.
    Recognises  tmp = copy (*self).field ; switchInt(move tmp)."""
    dead = set()
    du = defuse(body)
    for bi in body.cfg.reach:
        t = body.blocks[bi]["term"]
        if t["k"] != "switch":
            continue
        l = op_local(t["discr"])
        if l is None:
            # direct place
            p = op_place(t["discr"])
        else:
            d = du.single_def(l)
            p = None
            if d and d[0] == "stmt" and d[3]["rv"]["k"] == "use":
                p = op_place(d[3]["rv"]["op"])
        if p is None:
            continue
        r = root_place(body, p)
        for (adt, field), val in fold.items():
            if place_is_field(r, adt, field):
                v = 1 if val else 0
                taken = None
                for k, sv in enumerate(t["values"]):
                    if sv == v:
                        taken = k
                if taken is None:
                    taken = len(t["values"])
                for k in range(len(body.cfg.succ.get(bi, []))):
                    if k != taken:
                        dead.add(("e", bi, k))
    return dead


def pregate_region(prog, entries, gate, fold=None, stop=()):
    """Pre-gate region from the given entry bodies.

    Returns (pre, post): pre = {did: set(blocks)} reachable without passing a gate success edge,
    post = {did: set(blocks)} functions/blocks reachable only after a gate success (entered from a
    post-gate block), excluding those already pre. Closures are entered from their construction
    block."""
    cg = prog.cg
    pre = {}
    post_entered = set()
    work = [(b.did, True) for b in entries]
    seen = set()
    while work:
        did, is_pre = work.pop()
        if (did, is_pre) in seen or did in stop:
            continue
        seen.add((did, is_pre))
        body = prog.by_did[did]
        if is_pre:
            pblocks = gate.pre_blocks(body, fold)
            pre[did] = pblocks
        else:
            if did in pre:
                pass
            post_entered.add(did)
            pblocks = set()
        allb = gate.all_blocks(body, fold)
        for kind, callee, bb in cg.callees(did):
            if bb not in allb:
                continue
            if is_pre and bb in pblocks:
                # the gate call itself is made from a pre block: the callee is entered pre-gate
                work.append((callee, True))
            else:
                work.append((callee, False))
    post = {}
    for did in post_entered:
        body = prog.by_did[did]
        allb = gate.all_blocks(body, fold)
        post[did] = allb - pre.get(did, set())
    for did, pb in pre.items():
        body = prog.by_did[did]
        rest = gate.all_blocks(body, fold) - pb
        if rest:
            post[did] = post.get(did, set()) | rest
    return pre, post


# ---------------------------------------------------------------- write summaries

# external callees that take &mut self but only hand out a sub-reference (no store)
PURE_MUT_EXTERNALS = (
    "ops::IndexMut::index_mut", "ops::DerefMut::deref_mut", "convert::AsMut::as_mut", "iter::IntoIterator::into_iter",
    "iter::Iterator::next", "borrow::BorrowMut::borrow_mut", "IndexMut>::index_mut", "index_mut", "DerefMut>::deref_mut", "deref_mut", "AsMut>::as_mut", "as_mut",
    "HashMap::get_mut", "get_mut", "iter_mut", "values_mut", "as_mut_slice", "Option::as_mut", "Cursor::new",
    "Cursor::get_mut", "Cursor::get_ref", "Cursor::into_inner", "split_at_mut", "IntoIterator>::into_iter",
    "Iterator>::next", "Option::as_deref_mut", "Result::as_mut", "borrow_mut",
)


class WriteSummary:
    """For each local body: set of parameter indices (1-based) through which it may store
    (directly, or by passing the parameter on as &mut to a writing callee)."""

    def __init__(self, prog):
        self.prog = prog
        self.writes = {b.did: set() for b in prog.bodies}
        changed = True
        rounds = 0
        while changed and rounds < 30:
            changed = False
            rounds += 1
            for b in prog.bodies:
                w = self._scan(b)
                if w - self.writes[b.did]:
                    self.writes[b.did] |= w
                    changed = True

    def _param_of(self, body, place):
        r = root_place(body, place)
        l = r["l"]
        if 1 <= l <= body.arg_count:
            return l
        return None

    def _scan(self, body):
        out = set()
        for bi, si, s in body.stmts():
            if s["k"] == "assign" and s["place"].get("p"):
                p = self._param_of(body, s["place"])
                if p is not None and any(e["k"] == "deref" for e in root_place(body, s["place"]).get("p", [])):
                    out.add(p)
        for bi, t in body.calls():
            for kind, argi in self.call_writes(body, t):
                a = t["args"][argi]
                pl = op_place(a)
                if pl is None:
                    continue
                p = self._param_of(body, pl)
                if p is not None:
                    ty = body.local_ty(p)
                    if ty.k == "ref" and ty.d.get("mut"):
                        out.add(p)
        return out

    def call_writes(self, body, term):
        """Indices of arguments through which the callee may store. Yields (reason, arg index)."""
        res = []
        targets = self.prog.cg.resolve(body, term)
        for i, a in enumerate(term["args"]):
            pl = op_place(a)
            if pl is None:
                continue
            ty = body.place_ty(pl)
            if not (ty.k == "ref" and ty.d.get("mut")):
                continue
            if targets:
                if any((i + 1) in self.writes.get(d, set()) for _k, d in targets):
                    res.append(("local", i))
            else:
                if callee_is(term, *PURE_MUT_EXTERNALS):
                    continue
                res.append(("external", i))
        return res


def write_summary(prog):
    if not hasattr(prog, "_ws"):
        prog._ws = WriteSummary(prog)
    return prog._ws


# ---------------------------------------------------------------- variant switch edges

def variant_discr(prog, adt_suffix, variant):
    hits = [a for p, a in prog.adts.items() if adt_match(p, adt_suffix)]
    if len(hits) != 1:
        from .facts import AnchorError
        raise AnchorError("ADT anchor %s matched %d" % (adt_suffix, len(hits)))
    for v in hits[0]["variants"]:
        if v["name"] == variant:
            return v.get("discr", v["index"])
    from .facts import AnchorError
    raise AnchorError("variant %s::%s not found" % (adt_suffix, variant))


def switch_edges_on_variant(prog, body, adt_suffix, variants):
    """Edges of SwitchInt terminators whose discriminant is `discriminant(place: adt)` and whose
    value selects one of `variants`."""
    vals = set(variant_discr(prog, adt_suffix, v) for v in variants)
    du = defuse(body)
    edges = set()
    for bi in body.cfg.reach:
        t = body.blocks[bi]["term"]
        if t["k"] != "switch":
            continue
        l = op_local(t["discr"])
        if l is None:
            continue
        d = du.single_def(l)
        if not d or d[0] != "stmt" or d[3]["rv"]["k"] != "discr":
            continue
        pty = body.place_ty(d[3]["rv"]["place"]).deref()
        if pty.k != "adt" or not adt_match(pty.d["path"], adt_suffix):
            continue
        listed = set(t["values"])
        for k, v in enumerate(t["values"]):
            if v in vals:
                edges.add(("e", bi, k))
        # otherwise edge selects the variants when all remaining values are in vals
        adt = [a for p, a in prog.adts.items() if adt_match(p, adt_suffix)][0]
        allv = set(v.get("discr", v["index"]) for v in adt["variants"])
        rest = allv - listed
        if rest and rest <= vals:
            edges.add(("e", bi, len(t["values"])))
    return edges


def _bool_temp_switches(body):
    """Switches on a boolean temporary that is assigned on several arms (the lowering of `a || b`, `a && b`,
    `let c = ..; if c`, the return slot of a spliced bool helper): (switch block, local, negated, true edges,
    false edges)."""
    if hasattr(body, "_bts"):
        return body._bts
    du = defuse(body)
    out = []
    for bi in sorted(body.cfg.reach):
        t = body.blocks[bi]["term"]
        if t["k"] != "switch":
            continue
        p = op_place(t["discr"])
        if p is None or p.get("p") or body.local_ty(p["l"]).k != "bool":
            continue
        neg = False
        l = p["l"]
        for _ in range(16):
            d = du.single_def(l)
            if not d or d[0] != "stmt":
                break
            rv = d[3]["rv"]
            if rv["k"] == "unop" and rv["op"] == "Not" and op_place(rv["a"]) is not None and not op_place(rv["a"]).get("p"):
                neg = not neg
                l = op_place(rv["a"])["l"]
            elif rv["k"] == "use" and op_place(rv["op"]) is not None and not op_place(rv["op"]).get("p") and body.local_ty(op_place(rv["op"])["l"]).k == "bool":
                l = op_place(rv["op"])["l"]
            else:
                break
        if len(du.defs.get(l, [])) < 2:
            continue
        te, fe = set(), set()
        nv = len(t["values"])
        for k, v in enumerate(t["values"]):
            ((te if (v != 0) != neg else fe)).add(("e", bi, k))
        e = ("e", bi, nv)
        if t["values"] == [0]:
            (fe if neg else te).add(e)
        elif t["values"] == [1]:
            (te if neg else fe).add(e)
        out.append((bi, l, te, fe))
    body._bts = out
    return out


def extend_edges(body, edges):
    """Edges implied by `edges` through boolean temporaries: if every definition of a bool temporary T that can
    make it true (anything but `const false`) lies behind `edges`, then the true edges of a switch on T lie behind
    `edges` as well (T is true only if one of those definitions ran); likewise for false."""
    if not edges:
        return set()
    bts = _bool_temp_switches(body)
    if not bts:
        return set(edges)
    key = frozenset(edges)
    cache = body.__dict__.setdefault("_ext_cache", {})
    if key in cache:
        return cache[key]
    du = defuse(body)
    E = set(edges)
    for _round in range(4):
        grown = False
        unreach = None
        for (bi, l, te, fe) in bts:
            if te <= E and fe <= E:
                continue
            if unreach is None:
                unreach = body.cfg.reachable_from([0], avoid_edges=E)
            can_true, can_false = [], []
            for d in du.defs.get(l, []):
                c = None
                if d[0] == "stmt" and d[3]["rv"]["k"] == "use":
                    c = op_const(d[3]["rv"]["op"])
                if c != 0:
                    can_true.append(d[1])
                if c != 1:
                    can_false.append(d[1])
            if can_true and not te <= E and all(b not in unreach for b in can_true):
                E |= te
                grown = True
                unreach = None
            if unreach is None:
                unreach = body.cfg.reachable_from([0], avoid_edges=E)
            if can_false and not fe <= E and all(b not in unreach for b in can_false):
                E |= fe
                grown = True
                unreach = None
        if not grown:
            break
    cache[key] = E
    return E


def dominated_by_edges(body, edges, block):
    """Every path from entry to block crosses one of edges (or an edge implied by them through a boolean
    temporary, see extend_edges)."""
    if not edges:
        return False
    if block not in body.cfg.reachable_from([0], avoid_edges=edges):
        return True
    ext = extend_edges(body, edges)
    if len(ext) != len(set(edges)) and block not in body.cfg.reachable_from([0], avoid_edges=ext):
        return True
    # feasible paths only (variant of Result/Option temporaries tracked; see mirutil.feasible_reach)
    from .mirutil import feasible_reach
    key = (frozenset(ext), block)
    cache = body.__dict__.setdefault("_fdbe", {})
    if key not in cache:
        cache[key] = block not in feasible_reach(body, [0], avoid_edges=ext)
    return cache[key]


def bool_place_edges(body, place_pred):
    """Edges of SwitchInt terminators that test a boolean loaded from a place satisfying place_pred
    (after root tracing). Returns (true_edges, false_edges)."""
    du = defuse(body)
    te, fe = set(), set()
    for bi in body.cfg.reach:
        t = body.blocks[bi]["term"]
        if t["k"] != "switch":
            continue
        p = op_place(t["discr"])
        if p is None:
            continue
        neg = False
        # follow copies and negations back to the place the boolean was loaded from
        for _ in range(16):
            if p.get("p"):
                break
            d = du.single_def(p["l"])
            if not d or d[0] != "stmt":
                break
            rv = d[3]["rv"]
            if rv["k"] == "unop" and rv["op"] == "Not" and op_place(rv["a"]) is not None:
                neg = not neg
                p = op_place(rv["a"])
            elif rv["k"] == "use" and op_place(rv["op"]) is not None:
                p = op_place(rv["op"])
            else:
                break
        r = root_place(body, p)
        if not place_pred(r):
            continue
        nv = len(t["values"])
        for k, v in enumerate(t["values"]):
            e = ("e", bi, k)
            is_true = (v != 0) != neg
            (te if is_true else fe).add(e)
        # otherwise edge: the complement for a boolean
        e = ("e", bi, nv)
        if t["values"] == [0]:
            (fe if neg else te).add(e)
        elif t["values"] == [1]:
            (te if neg else fe).add(e)
    # boolean temporaries (`let both = own && peer; if both`): the temporary is true only through a definition
    # that copies the flag, so its true edges are true edges of the flag (likewise false for `||`)
    def traces_to_flag(op):
        p = op_place(op)
        if p is None:
            return None
        neg = False
        for _ in range(16):
            if p.get("p"):
                break
            d = du.single_def(p["l"])
            if not d or d[0] != "stmt":
                break
            rv = d[3]["rv"]
            if rv["k"] == "unop" and rv["op"] == "Not" and op_place(rv["a"]) is not None:
                neg = not neg
                p = op_place(rv["a"])
            elif rv["k"] == "use" and op_place(rv["op"]) is not None:
                p = op_place(rv["op"])
            else:
                break
        return (not neg) if place_pred(root_place(body, p)) else None
    for (bi, l, te2, fe2) in _bool_temp_switches(body):
        can_true, can_false = [], []
        for d in du.defs.get(l, []):
            c = op_const(d[3]["rv"]["op"]) if d[0] == "stmt" and d[3]["rv"]["k"] == "use" else None
            pol = traces_to_flag(d[3]["rv"]["op"]) if d[0] == "stmt" and d[3]["rv"]["k"] == "use" and c is None else None
            if c != 0:
                can_true.append(pol)
            if c != 1:
                can_false.append(pol)
        if can_true and all(x is True for x in can_true):
            te |= te2
        if can_false and all(x is True for x in can_false):
            fe |= fe2
        if can_true and all(x is False for x in can_true):
            fe |= te2
        if can_false and all(x is False for x in can_false):
            te |= fe2
    return te, fe


def call_bool_edges(body, bi):
    """(true_edges, false_edges) of switches testing the bool returned by the call in block bi."""
    oc = success_edges(body, bi)
    return oc.ok_edges, oc.err_edges


NEG_REL = {"Lt": "Ge", "Le": "Gt", "Gt": "Le", "Ge": "Lt", "Eq": "Ne", "Ne": "Eq"}
MIRROR_REL = {"Lt": "Gt", "Le": "Ge", "Gt": "Lt", "Ge": "Le", "Eq": "Eq", "Ne": "Ne"}


def compare_switches(body):
    """Every SwitchInt that tests the result of an integer comparison (through copies and negations):
    list of (switch block, rel, a operand, b operand, true_edges, false_edges) meaning `a rel b` on the true edges
    and the negated relation on the false edges."""
    du = defuse(body)
    out = []
    for bi in sorted(body.cfg.reach):
        t = body.blocks[bi]["term"]
        if t["k"] != "switch":
            continue
        p = op_place(t["discr"])
        if p is None:
            continue
        neg = False
        cmp_stmt = None
        for _ in range(16):
            if p.get("p"):
                break
            d = du.single_def(p["l"])
            if not d or d[0] != "stmt":
                break
            rv = d[3]["rv"]
            if rv["k"] == "unop" and rv["op"] == "Not" and op_place(rv["a"]) is not None:
                neg = not neg
                p = op_place(rv["a"])
            elif rv["k"] == "use" and op_place(rv["op"]) is not None:
                p = op_place(rv["op"])
            elif rv["k"] == "binop" and rv["op"] in NEG_REL:
                cmp_stmt = rv
                break
            else:
                break
        if cmp_stmt is None:
            continue
        te, fe = set(), set()
        nv = len(t["values"])
        for k, v in enumerate(t["values"]):
            ((te if (v != 0) != neg else fe)).add(("e", bi, k))
        e = ("e", bi, nv)
        if t["values"] == [0]:
            (fe if neg else te).add(e)
        elif t["values"] == [1]:
            (te if neg else fe).add(e)
        out.append((bi, cmp_stmt["op"], cmp_stmt["a"], cmp_stmt["b"], te, fe))
    return out


def edges_where(body, place_pred, rel, bound):
    """Edges on which `x rel bound` is known to hold for the integer place x selected by place_pred (rel in Lt/Ge
    ..., bound a constant): recognises the comparison in either operand order, negated, and in the equivalent
    off-by-one spelling (x < c  ==  x <= c-1)."""
    from .facts import op_const as _c
    res = set()
    for (bi, op, a, b, te, fe) in compare_switches(body):
        ca, cb = _c(a), _c(b)
        if cb is not None and op_place(a) is not None and place_pred(root_place(body, op_place(a))):
            r, c = op, cb
        elif ca is not None and op_place(b) is not None and place_pred(root_place(body, op_place(b))):
            r, c = MIRROR_REL[op], ca
        else:
            continue
        for edges, rr in ((te, r), (fe, NEG_REL[r])):
            # normalise <= / > to < / >=
            if rr == "Le":
                rr, cc = "Lt", c + 1
            elif rr == "Gt":
                rr, cc = "Ge", c + 1
            else:
                cc = c
            if rr == rel and cc == bound:
                res |= edges
    return res


def reach_assuming_field(body, field_pred, value, stop_blocks=()):
    """Blocks reachable from entry when the integer field selected by field_pred holds `value` on entry and every
    other (non-constant) operand it is compared with is different from it: switches on a load of the field (directly,
    through copies, or as a component of an in-place tuple) follow only the matching arm, Eq/Ne tests of the field
    against a constant are decided, against a non-constant place they are taken as unequal.  Exploration does not
    continue past `stop_blocks` (the stores that would invalidate the assumption)."""
    du = defuse(body)
    cfg = body.cfg
    stop = set(stop_blocks)

    def is_field(op):
        p = op_place(op)
        return p is not None and field_pred(root_place(body, p))

    def decide(bi):
        """Index list of feasible successor slots of the switch in block bi, or None for all."""
        t = body.blocks[bi]["term"]
        p = op_place(t["discr"])
        if p is None:
            return None
        if field_pred(root_place(body, p)):
            return [t["values"].index(value)] if value in t["values"] else [len(t["values"])]
        neg = False
        cur = p
        rv = None
        for _ in range(16):
            if cur.get("p"):
                break
            d = du.single_def(cur["l"])
            if not d or d[0] != "stmt":
                break
            r2 = d[3]["rv"]
            if r2["k"] == "unop" and r2["op"] == "Not" and op_place(r2["a"]) is not None:
                neg = not neg
                cur = op_place(r2["a"])
            elif r2["k"] == "use" and op_place(r2["op"]) is not None:
                cur = op_place(r2["op"])
                if field_pred(root_place(body, cur)):
                    return [t["values"].index(value)] if value in t["values"] else [len(t["values"])]
            elif r2["k"] == "binop" and r2["op"] in ("Eq", "Ne"):
                rv = r2
                break
            else:
                break
        if rv is None:
            return None
        fa, fb = is_field(rv["a"]), is_field(rv["b"])
        if not (fa or fb):
            return None
        other = rv["b"] if fa else rv["a"]
        c = op_const(other)
        equal = (c == value) if c is not None else False
        truth = equal if rv["op"] == "Eq" else (not equal)
        if neg:
            truth = not truth
        want = 1 if truth else 0
        if want in t["values"]:
            return [t["values"].index(want)]
        return [len(t["values"])]

    def truth_of_operand(op, oracle, depth=0):
        """Possible truth values {0,1} of a bool operand under the assumption (None = unknown)."""
        p = op_place(op)
        if p is None:
            c = op_const(op)
            return {1 if c else 0} if c is not None else None
        if p.get("p") or depth > 8:
            return None
        defs = du.defs.get(p["l"], [])
        if not defs:
            return None
        vals = set()
        for d in defs:
            if d[1] not in oracle:
                continue   # this definition cannot have run
            if d[0] != "stmt":
                return None
            r2 = d[3]["rv"]
            if r2["k"] == "use":
                v = truth_of_operand(r2["op"], oracle, depth + 1)
            elif r2["k"] == "unop" and r2["op"] == "Not":
                v = truth_of_operand(r2["a"], oracle, depth + 1)
                v = None if v is None else {1 - x for x in v}
            elif r2["k"] == "binop" and r2["op"] in ("Eq", "Ne"):
                fa, fb = is_field(r2["a"]), is_field(r2["b"])
                if not (fa or fb):
                    return None
                c = op_const(r2["b"] if fa else r2["a"])
                equal = (c == value) if c is not None else False
                v = {1 if (equal if r2["op"] == "Eq" else not equal) else 0}
            else:
                return None
            if v is None:
                return None
            vals |= v
        return vals

    oracle = set()
    for _round in range(8):
        seen = set()
        work = [0]
        while work:
            bi = work.pop()
            if bi in seen or bi not in cfg.reach:
                continue
            seen.add(bi)
            if bi in stop:
                continue
            succs = cfg.succ.get(bi, [])
            t = body.blocks[bi]["term"]
            slots = None
            if t["k"] == "switch":
                slots = decide(bi)
                if slots is None and op_place(t["discr"]) is not None and body.place_ty(op_place(t["discr"])).k == "bool":
                    # a boolean temporary assigned on several arms (`let c = a && b`)
                    tv = truth_of_operand(t["discr"], oracle | seen)
                    if tv is not None:
                        slots = []
                        for v in tv:
                            slots.append(t["values"].index(v) if v in t["values"] else len(t["values"]))
            for k, sblk in enumerate(succs):
                if slots is None or k in slots:
                    work.append(sblk)
        if seen <= oracle:
            break
        oracle |= seen
    return oracle
