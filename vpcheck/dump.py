"""Debug helper: python3 -m vpcheck.dump <facts.json> <fn-suffix>..."""
import sys
from .facts import Program, dump_body

def main():
    prog = Program(sys.argv[1])
    for suf in sys.argv[2:]:
        hits = [b for b in prog.bodies if suf in b.path]
        for b in hits:
            dump_body(b)
            print()

if __name__ == "__main__":
    main()
