"""Build orchestration: driver build, fact extraction from /repo's current working tree."""
import fcntl
import hashlib
import os
import subprocess
import sys
import time
import uuid

VERIF = os.path.dirname(os.path.dirname(os.path.abspath(__file__)))
REPO = os.environ.get("VPCHECK_REPO", "/repo")
CACHE = os.path.join(VERIF, ".cache")
DRIVER_DIR = os.path.join(VERIF, "driver")
DRIVER_BIN = os.path.join(DRIVER_DIR, "target", "debug", "vpfacts")

CONFIGS = {
    # name -> extra cargo arguments; 'default' is what the pinned test suite builds.
    # The pinned repository does not compile with --no-default-features (cloud.rs uses nat-only methods of
    # PortForwarding) nor with --all-features (installer.rs includes a man page that is only produced by the
    # release pipeline), so the second configuration is the smallest one that builds: nat only.
    "default": [],
    "minimal": ["--no-default-features", "--features", "nat"],
}


class InfraError(Exception):
    pass


def _env():
    env = dict(os.environ)
    env["CARGO_NET_OFFLINE"] = "true"
    sysroot = subprocess.check_output(["rustc", "+nightly", "--print", "sysroot"], text=True).strip()
    env["LD_LIBRARY_PATH"] = os.path.join(sysroot, "lib") + (":" + env["LD_LIBRARY_PATH"] if env.get("LD_LIBRARY_PATH") else "")
    return env


def ensure_driver(verbose=False):
    os.makedirs(CACHE, exist_ok=True)
    with open(os.path.join(CACHE, "driver.lock"), "w") as lk:
        fcntl.flock(lk, fcntl.LOCK_EX)
        srcs = [os.path.join(DRIVER_DIR, "src", f) for f in os.listdir(os.path.join(DRIVER_DIR, "src"))]
        newest = max(os.path.getmtime(s) for s in srcs + [os.path.join(DRIVER_DIR, "Cargo.toml")])
        if os.path.exists(DRIVER_BIN) and os.path.getmtime(DRIVER_BIN) >= newest:
            return
        r = subprocess.run(["cargo", "+nightly", "build", "--offline"], cwd=DRIVER_DIR, env=_env(),
                           stdout=subprocess.PIPE, stderr=subprocess.STDOUT, text=True)
        if r.returncode != 0 or not os.path.exists(DRIVER_BIN):
            raise InfraError("vpfacts driver failed to build:\n" + r.stdout[-4000:])
        if verbose:
            print("built driver", file=sys.stderr)


def tree_hash(repo=None):
    """Content hash of the files that determine the analysed program."""
    repo = repo or REPO
    h = hashlib.sha256()
    paths = []
    for root, dirs, files in os.walk(os.path.join(repo, "src")):
        dirs.sort()
        for f in sorted(files):
            paths.append(os.path.join(root, f))
    for f in ("Cargo.toml", "Cargo.lock", "build.rs"):
        p = os.path.join(repo, f)
        if os.path.exists(p):
            paths.append(p)
    for p in paths:
        h.update(os.path.relpath(p, repo).encode())
        h.update(b"\0")
        with open(p, "rb") as fh:
            h.update(fh.read())
        h.update(b"\0")
    return h.hexdigest()[:24]


def build_facts(config="default", repo=None, target_dir=None, keep=False):
    """Run the driver over the repository's current working tree; return path of the fact file.

    Always re-extracts (the member's fingerprint is removed so cargo cannot skip the wrapper) unless
    VPCHECK_REUSE=1 and a fact file for the identical tree content hash exists (development aid)."""
    repo = repo or REPO
    ensure_driver()
    os.makedirs(CACHE, exist_ok=True)
    th = tree_hash(repo)
    reuse = os.environ.get("VPCHECK_REUSE") == "1"
    cached = os.path.join(CACHE, "facts-%s-%s.json" % (config, th))
    if reuse and os.path.exists(cached):
        return cached
    target_dir = target_dir or os.path.join(CACHE, "target")
    os.makedirs(target_dir, exist_ok=True)
    nonce = uuid.uuid4().hex
    out = os.path.join(CACHE, "facts-%s-%s-%s.json" % (config, th, nonce[:8])) if not reuse else cached
    env = _env()
    env.update({
        "VPFACTS_OUT": out,
        "VPFACTS_NONCE": nonce,
        "VPFACTS_CONFIG": config,
        "VPFACTS_CRATE": "vpncloud",
        "RUSTFLAGS": "-Zmir-opt-level=0 -Awarnings",
        "RUSTC_WORKSPACE_WRAPPER": DRIVER_BIN,
        "CARGO_TARGET_DIR": target_dir,
    })
    with open(os.path.join(CACHE, "target.lock"), "w") as lk:
        fcntl.flock(lk, fcntl.LOCK_EX)
        # cargo's freshness cache would skip the wrapper: forget the member's fingerprints
        fp = os.path.join(target_dir, "debug", ".fingerprint")
        if os.path.isdir(fp):
            for d in os.listdir(fp):
                if d.startswith("vpncloud-"):
                    subprocess.run(["rm", "-rf", os.path.join(fp, d)])
        cmd = ["cargo", "+nightly", "check", "--offline", "--bin", "vpncloud"] + CONFIGS[config]
        t0 = time.time()
        r = subprocess.run(cmd, cwd=repo, env=env, stdout=subprocess.PIPE, stderr=subprocess.STDOUT, text=True)
        dt = time.time() - t0
    if r.returncode != 0:
        raise InfraError("cargo check failed for config %s (does /repo compile?):\n%s" % (config, r.stdout[-6000:]))
    if not os.path.exists(out):
        raise InfraError("driver produced no fact file for config %s (wrapper skipped?)\n%s" % (config, r.stdout[-2000:]))
    # freshness: the nonce is checked by the loader
    return out, nonce, dt


def load_program(config="default", repo=None):
    from .facts import Program
    res = build_facts(config, repo)
    if isinstance(res, tuple):
        path, nonce, dt = res
        prog = Program(path)
        if prog.nonce != nonce:
            raise InfraError("stale fact file: nonce mismatch")
        if os.environ.get("VPCHECK_KEEP") != "1" and os.environ.get("VPCHECK_REUSE") != "1":
            try:
                os.unlink(path)
            except OSError:
                pass
        prog.extract_s = dt
    else:
        prog = Program(res)
        prog.extract_s = 0.0
    if prog.raw.get("cfg_test"):
        raise InfraError("facts come from a cfg(test) build")
    prog.config = config
    return prog
