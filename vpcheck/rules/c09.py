"""C09 - established connections survive forged and replayed traffic (DESIGN.md section 4, C09.R1-R4)."""
from ..engine import site_of
from ..facts import op_place, op_local, op_const
from ..callgraph import callee_is
from ..mirutil import (success_edges, root_place, op_root, deep_root, place_is_field, calls_on_field,
                       origin, defuse, calls_in, forward_taint)
from ..region import switch_edges_on_variant, dominated_by_edges
from .. import anchors as A
from . import c02
from .c12 import peer_remove_sites

HM_LOOKUP = ("HashMap::get_mut", "HashMap<K, V, S>::get_mut", "HashMap::get", "HashMap<K, V, S>::get",
             "HashMap::contains_key", "HashMap<K, V, S>::contains_key")
HM_SHRINK = ("HashMap::clear", "HashMap<K, V, S>::clear", "HashMap::retain", "HashMap<K, V, S>::retain",
             "HashMap::drain", "HashMap<K, V, S>::drain", "HashMap::extract_if", "HashMap<K, V, S>::extract_if")


def r1_who_may_remove(cx):
    prog = cx.prog
    sites = peer_remove_sites(prog)
    cx.exact("peers-remove-sites", len(sites), 3, "peers.remove call sites")
    allowed = {"housekeep": "timeout sweep", "remove_peer": "close message", "crypto_housekeep": "crypto tick failure"}
    for (b, bi, t) in sites:
        cx.touch(b)
        cx.check("remover:" + b.name, b.name in allowed, site_of(b, bi), "peer removal site is one of %s" % sorted(allowed), how="table")
    other = calls_on_field(prog, HM_SHRINK, "GenericCloud", "peers")
    cx.check("no-bulk-removal", not other, site_of(other[0][0], other[0][1]) if other else None, "no clear/retain/drain on the peer map")
    # the timeout sweep removes only peers whose expiry is in the past
    hk = A.cloud_fn(prog, "housekeep")
    # remove_peer is reached only from the CLOSE arm of an opened message
    rp = A.cloud_fn(prog, "remove_peer")
    callers = [(prog.by_did[c], bb) for (c, bb, kind) in prog.cg.callers.get(rp.did, [])]
    cx.exact("remove_peer-callers", len(callers), 1, "call sites of remove_peer")
    close_ty = prog.const_value("MESSAGE_TYPE_CLOSE")
    for (cb, bb) in callers:
        e1 = switch_edges_on_variant(prog, cb, "MessageResult", ["Message"])
        ok2 = False
        for sb in cb.cfg.reach:
            tt = cb.blocks[sb]["term"]
            if tt["k"] != "switch":
                continue
            p = op_place(tt["discr"])
            if p is None:
                continue
            r = root_place(cb, p)
            if any(e["k"] == "downcast" and e.get("v") == "Message" for e in r.get("p", [])):
                edges = set(("e", sb, k) for k, v in enumerate(tt["values"]) if v == close_ty)
                if dominated_by_edges(cb, edges, bb):
                    ok2 = True
        cx.check("close-arm", dominated_by_edges(cb, e1, bb) and ok2, site_of(cb, bb),
                 "remove_peer is called only under MessageResult::Message(MESSAGE_TYPE_CLOSE) of an opened message")


def r2_dispatch_priority(cx):
    prog = cx.prog
    hnm = A.cloud_fn(prog, "handle_net_message")
    cx.touch(hnm)
    cfg = hnm.cfg
    # edges establishing "this datagram is a handshake message"
    init_true = set()
    for ci, ct in calls_in(hnm, "is_init_message"):
        init_true |= success_edges(hnm, ci).ok_edges
    # edges establishing "the peer map holds no entry for the source"
    nopeer = set()
    for (b, ci, ct) in calls_on_field(prog, HM_LOOKUP, "GenericCloud", "peers", bodies=[hnm]):
        oc = success_edges(hnm, ci)
        nopeer |= oc.err_edges
    n = 0
    for ci, ct in calls_in(hnm, "PeerCrypto::handle_message", "PeerCrypto<P>::handle_message"):
        recv = deep_root(hnm, ct["args"][0])
        o = origin(hnm, {"k": "copy", "place": {"l": recv["l"]}}) if recv is not None else None
        from_pending = False
        if recv is not None:
            # the receiver is the payload of Some(..) returned by a lookup on pending_inits
            d = defuse(hnm).single_def(recv["l"])
            if d and d[0] == "call" and callee_is(d[2], *HM_LOOKUP):
                r = op_root(hnm, d[2]["args"][0])
                from_pending = r is not None and place_is_field(r, "GenericCloud", "pending_inits")
        if not from_pending:
            continue
        n += 1
        ok = dominated_by_edges(hnm, init_true | nopeer, ci)
        cx.check("pending-captures-only-handshake-or-nonpeer", ok, site_of(hnm, ci),
                 "a datagram is handed to a pending handshake object only if it was tested to be a handshake message "
                 "or the peer map holds no entry for its source (otherwise a stored responder captures an established peer's sealed traffic)")
    cx.floor("pending-dispatch-sites", n, 1, "dispatch sites to a pending handshake object in handle_net_message")


def r3_removal_attribution(cx):
    prog = cx.prog
    ch = A.cloud_fn(prog, "crypto_housekeep")
    cx.touch(ch)
    sites = [(b, bi, t) for (b, bi, t) in peer_remove_sites(prog) if b.did == ch.did]
    cx.floor("remove-in-crypto_housekeep", len(sites), 1, "peers.remove in crypto_housekeep")
    tainted = forward_taint(ch, seed_place_pred=lambda p: place_is_field(root_place(ch, p), "GenericCloud", "pending_inits"),
                            mut_args="locals")
    for (b, bi, t) in sites:
        key = deep_root(ch, t["args"][1])
        bad = key is not None and key["l"] in tainted
        # a guard that re-derives the failure from the peer itself also attributes correctly:
        # removal dominated by a failed tick of that peer in the same iteration
        cx.check("peer-removed-for-own-failure", not bad, site_of(ch, bi),
                 "the address given to peers.remove flows only from the sweep over peers, never from the sweep over pending handshakes "
                 "(a pending handshake that gives up must not take the established peer with it)")


def r5_routes_dropped_only_with_peer(cx):
    """table.remove_claims(addr) wipes the routes and learned addresses of addr: it may be called only where the peer
    at addr was just removed, or where the peer map was found not to contain addr (repair path)."""
    prog = cx.prog
    rc = A.method(prog, "ClaimTable", "remove_claims")
    callers = [(prog.by_did[c], bb) for (c, bb, kind) in prog.cg.callers.get(rc.did, [])]
    cx.floor("remove_claims-sites", len(callers), 4, "call sites of ClaimTable::remove_claims")
    removes = peer_remove_sites(prog)
    for (cb, bb) in callers:
        cx.touch(cb)
        t = cb.blocks[bb]["term"]
        a = deep_root(cb, t["args"][1])
        ok = False
        why = ""
        for (rb, rbi, rt) in removes:
            if rb.did != cb.did:
                continue
            k = deep_root(cb, rt["args"][1])
            if a is None or k is None or a["l"] != k["l"]:
                continue
            oc = success_edges(cb, rbi)
            if oc.ok_edges and not oc.unrecognised:
                # result tested: the claims go only on the Some edge
                if dominated_by_edges(cb, oc.ok_edges, bb):
                    ok, why = True, "under the Some edge of peers.remove(addr)"
            elif cb.cfg.dominates(rbi, bb):
                ok, why = True, "after an unconditional peers.remove(addr)"
        if not ok:
            # repair path: the peer map does not contain addr
            for (b2, ci, ct) in calls_on_field(prog, HM_LOOKUP, "GenericCloud", "peers", bodies=[cb]):
                k = deep_root(cb, ct["args"][1])
                if a is not None and k is not None and a["l"] == k["l"]:
                    oc = success_edges(cb, ci)
                    if dominated_by_edges(cb, oc.err_edges, bb):
                        ok, why = True, "the peer map holds no entry for addr"
        cx.check("routes-dropped-with-peer:" + cb.name, ok, site_of(cb, bb),
                 "remove_claims(addr) is called only where the peer at addr was removed or is known to be absent%s" % ((": " + why) if why else ""))


def r7_finished_handshake_not_restarted(cx):
    """A replayed ping / pong / peng must not move a handshake object that has already finished (WAITING_TO_CLOSE,
    the 60 s linger of the initiator inside an established peer, or CLOSING) back into the protocol: the object would
    wait for a message the replaying party cannot produce, time out after 120 retries, and the crypto tick would
    then remove the healthy peer.  Rule: in InitState::handle_init every store of a stage constant to `next_stage` is
    dominated by an edge on which the stored stage equals the stage carried by the message (the in-sequence case),
    or equals STAGE_PONG (the dual-open tie-break) - never by a test for a terminal stage."""
    prog = cx.prog
    from ..region import reach_assuming_field
    hi = A.method(prog, "InitState", "handle_init")
    cx.touch(hi)
    terminal = {"WAITING_TO_CLOSE": prog.const_value("WAITING_TO_CLOSE"), "CLOSING": prog.const_value("CLOSING")}
    stores = [(bi, s0) for bi, si, s0 in hi.stmts() if s0["k"] == "assign" and place_is_field(s0["place"], "InitState", "next_stage")]
    cx.floor("stage-stores", len(stores), 3, "stores to next_stage in handle_init")
    # the assumption is about the stage on entry: the stores end it
    sblocks = [bi for bi, _s in stores]
    for name, val in sorted(terminal.items()):
        reach = reach_assuming_field(hi, lambda r: place_is_field(r, "InitState", "next_stage"), val, stop_blocks=sblocks)
        hit = [(bi, s0) for bi, s0 in stores if bi in reach]
        cx.check("no-restart-from:" + name, not hit, site_of(hi, span=hit[0][1]["span"]) if hit else site_of(hi),
                 "with next_stage = %s (%d) on entry no path of handle_init stores a new stage: a datagram cannot restart a finished handshake" % (name, val))
        # sanity of the pruning: the function can still return under the assumption
        cx.check("returns-from:" + name, any(x in reach for x in hi.cfg.exits), site_of(hi), "handle_init returns when entered in stage %s" % name)


def r8_no_constant_aead_key(cx):
    """Every key slot accepts whatever opens under its key, and the slot is chosen by an unauthenticated byte: a slot
    whose key an outsider can know lets him fabricate sealed datagrams (a CLOSE, say).  Rule: the key material given
    to ring's UnboundKey::new never originates from a constant buffer (vec![c; n], [c; n], a literal) - it comes from
    the random source or a key derivation."""
    prog = cx.prog
    sites = []
    for b in prog.bodies:
        if not b.file.startswith("src/crypto/"):
            continue
        for ci, ct in b.calls():
            if callee_is(ct, "ring::aead::UnboundKey::new", "aead::UnboundKey::new") and len(ct["args"]) >= 2:
                sites.append((b, ci, ct))
    cx.floor("key-constructions", len(sites), 3, "UnboundKey::new call sites in src/crypto")
    for (b, ci, ct) in sites:
        cx.touch(b)
        cur = ct["args"][1]
        const_src = None
        for _ in range(8):
            o = origin(b, cur)
            if o[0] == "const":
                const_src = "a constant"
                break
            if o[0] == "rvalue":
                rv = o[2]["rv"]
                if rv["k"] == "repeat" and rv["op"].get("k") == "const":
                    const_src = "[const; n]"
                    break
                if rv["k"] == "ref":
                    cur = {"k": "copy", "place": rv["place"]}
                    continue
                if rv["k"] == "aggregate" and rv.get("agg") == "array" and all(x.get("k") == "const" for x in rv["ops"]):
                    const_src = "a literal array"
                break
            if o[0] == "call":
                t2 = o[2]
                if callee_is(t2, "vec::from_elem") and t2["args"] and t2["args"][0].get("k") == "const":
                    const_src = "vec![const; n]"
                    break
                if callee_is(t2, "ops::Deref::deref", "ops::Index::index", "ops::DerefMut::deref_mut", "convert::AsRef::as_ref", "vec::Vec::as_slice", "borrow::Borrow::borrow") and t2["args"]:
                    cur = t2["args"][0]
                    continue
                break
            if o[0] == "place":
                r = o[1]
                ds = defuse(b).defs.get(r["l"], [])
                if len(ds) == 1 and ds[0][0] == "call":
                    t2 = ds[0][2]
                    if callee_is(t2, "vec::from_elem") and t2["args"] and t2["args"][0].get("k") == "const":
                        const_src = "vec![const; n]"
                break
            break
        cx.check("key-not-constant:" + b.name, const_src is None, site_of(b, ci), "the AEAD key is not built from %s" % (const_src or "constant bytes"))


RULES = [
    ("C09.R1", r1_who_may_remove, "who may remove a peer: timeout sweep, CLOSE arm, crypto tick failure"),
    ("C09.R2", r2_dispatch_priority, "dispatch priority: pending handshake objects see only handshake datagrams or non-peers"),
    ("C09.R3", r3_removal_attribution, "a peer is removed in the crypto tick only for its own failure (provenance)"),
    ("C09.R5", r5_routes_dropped_only_with_peer, "routes of an address are dropped only together with (or in the absence of) its peer"),
    ("C09.R7", r7_finished_handshake_not_restarted, "a finished (lingering / closing) handshake object is never restarted by a datagram"),
    ("C09.R8", r8_no_constant_aead_key, "no AEAD key slot is keyed with constant (publicly known) bytes"),
    ("C09.R6", c02.r5_open_checked_before_state, "the receive window of a connection is advanced only behind a successful AEAD open (= C02.R5): a forged datagram cannot move it"),
]

LEVEL_TEXT = ("Static who-may-call, dominance and provenance rules on MIR: a peer is removed only at three reviewed sites (timeout, authenticated "
              "close, own crypto failure); a pending handshake object can receive a datagram only if it is a handshake message or no peer exists "
              "for that address; the crypto tick attributes failures to the right table."
              " The receive window is advanced only behind a successful AEAD open; a finished (lingering / closing) handshake object cannot be restarted by a datagram (constant propagation of the stage field).")
LEVEL_NOTE = ("Partial: decides C09.R1-R3 and relies on C03 (nonce window), C07.R4 (stale rotation ids), C05.R1 (absorbing completion) for stale "
              "datagrams. Not decided: the timed re-injection experiment (offsets, probe phase).")
TECHNIQUE = "MIR who-may-call, dominance by lookup/marker edges, taint provenance"
