"""C13 - switch learning per VLAN and expiry; hub and router learn nothing (DESIGN.md section 4, C13.R1-R5)."""
from ..engine import site_of
from ..facts import op_place, op_local, op_const
from ..callgraph import callee_is
from ..mirutil import (root_place, op_root, deep_root, place_is_field, calls_on_field, aggregates, origin, defuse,
                       calls_in, forward_taint, field_writes)
from ..region import dominated_by_edges, bool_place_edges
from ..decision import table_by_conditions, lookup, lookup_by_reachability
from ..lengths import eq_sites, const_of
from .. import anchors as A

# documented table (vpncloud.adoc, "mode"): normal = switch on tap devices / router on tun devices;
# hub: no learning, broadcast; switch: learning, broadcast unknown; router: claims only, drop unknown
DOC_TABLE = {
    ("Normal", "Tap"): (1, 1),
    ("Normal", "Tun"): (0, 0),
    ("Router", "Tap"): (0, 0),
    ("Router", "Tun"): (0, 0),
    ("Switch", "Tap"): (1, 1),
    ("Switch", "Tun"): (1, 1),
    ("Hub", "Tap"): (0, 1),
    ("Hub", "Tun"): (0, 1),
}


def r1_mode_table(cx):
    prog = cx.prog
    new = A.cloud_fn(prog, "new")
    cx.touch(new)
    ags = [(b, bi, s) for (b, bi, s) in aggregates(prog, "GenericCloud") if b.did == new.did]
    cx.exact("ctor", len(ags), 1, "GenericCloud constructions in new()")
    if len(ags) != 1:
        return
    rv = ags[0][2]["rv"]
    tabs = {}
    for f in ("learning", "broadcast"):
        op = rv["ops"][rv["fields"].index(f)]
        tabs[f] = table_by_conditions(new, op)
        cx.check("constant-table:" + f, bool(tabs[f]) and all(v is not None for _c, v in tabs[f]), site_of(new),
                 "%s is assigned from a table of constants selected by mode / device type (%d entries)" % (f, len(tabs[f])))
    for (mode, dev), (learn, bc) in sorted(DOC_TABLE.items()):
        asg = {"mode": mode, "device_type": dev}
        l = lookup_by_reachability(new, rv["ops"][rv["fields"].index("learning")], asg)
        b = lookup_by_reachability(new, rv["ops"][rv["fields"].index("broadcast")], asg)
        cx.check("mode:%s/%s" % (mode, dev), l == [learn] and b == [bc], site_of(new),
                 "mode %s on %s => (learning, broadcast) = (%d, %d) as documented (found %s, %s)" % (mode, dev, learn, bc, l, b))
    # the flags are never reassigned later
    for f in ("learning", "broadcast"):
        w = field_writes(prog, "GenericCloud", f)
        cx.check("flag-immutable:" + f, not w, site_of(w[0][0], w[0][1]) if w else None, "GenericCloud.%s is never reassigned" % f)


def r2_learning_under_flag(cx):
    prog = cx.prog
    cache = A.method(prog, "ClaimTable", "cache")
    callers = [(prog.by_did[c], bb) for (c, bb, kind) in prog.cg.callers.get(cache.did, [])]
    cx.exact("cache-callers", len(callers), 1, "call sites of ClaimTable::cache")
    hp = A.cloud_fn(prog, "handle_payload_from")
    for (cb, bb) in callers:
        cx.touch(cb)
        cx.check("learn-in-handle_payload_from", cb.did == hp.did, site_of(cb, bb), "learning happens only while handling a received payload")
        te, fe = bool_place_edges(cb, lambda r: place_is_field(r, "GenericCloud", "learning"))
        cx.check("learn-under-flag", dominated_by_edges(cb, te, bb), site_of(cb, bb), "ClaimTable::cache is called only when self.learning is true")
        t = cb.blocks[bb]["term"]
        # (source address of the dissected frame, sending peer)
        parse_calls = [(ci, ct) for ci, ct in cb.calls() if A.is_trait_call(ct, "payload::Protocol", "parse")]
        ok_addr = False
        if len(parse_calls) == 1:
            tainted = forward_taint(cb, seed_locals=[parse_calls[0][1]["dest"]["l"]], mut_args=False)
            a = op_root(cb, t["args"][1])
            # src is component .0 of the parsed pair
            o = origin(cb, t["args"][1])
            if a is not None and a["l"] in tainted:
                # find the projection the value was read from: (.., Continue).0 .0 => first element
                ok_addr = _is_tuple_elem(cb, t["args"][1], 0)
        cx.check("learn-source-address", ok_addr, site_of(cb, bb), "the learned address is the source address (.0) returned by the dissector")
        p = op_root(cb, t["args"][2])
        cx.check("learn-sending-peer", p is not None and p["l"] == 2, site_of(cb, bb), "the learned next hop is the peer the payload came from")
    # ClaimTable::cache stores (peer, now + cache_timeout)
    ins = calls_on_field(prog, ("HashMap::insert",), "ClaimTable", "cache", bodies=[cache])
    cx.exact("cache-insert", len(ins), 1, "cache.insert in ClaimTable::cache")


def _is_tuple_elem(body, op, idx, depth=0):
    """The operand's value is read from tuple element idx of some local (through copies)."""
    p = op_place(op)
    if p is None or depth > 8:
        return False
    l = p["l"]
    for d in defuse(body).defs.get(l, []):
        if d[0] != "stmt":
            return False
        rv = d[3]["rv"]
        if rv["k"] != "use":
            return False
        sp = op_place(rv["op"])
        if sp is None:
            return False
        fs = [e for e in sp.get("p", []) if e["k"] == "field"]
        if fs and fs[-1].get("adt") == "{tuple}":
            return fs[-1]["i"] == idx
        if not sp.get("p"):
            return _is_tuple_elem(body, rv["op"], idx, depth + 1)
        return False
    return False


def length_mismatch_rule(cx, files, floor_key, floor):
    """Shared with C14.R2: comparisons between byte sequences of different static length."""
    prog = cx.prog
    sites = [(b, bi, t, la, lb) for (b, bi, t, la, lb) in eq_sites(prog) if b.file in files or files is None]
    known = 0
    for (b, bi, t, la, lb) in sites:
        cx.touch(b)
        if la is None or lb is None:
            continue
        known += 1
        cx.check("eq-len:%s:%s" % (b.path, t["callee"]["full"]), la == lb, site_of(b, bi),
                 "comparison of byte sequences with static lengths %d and %d%s" % (la, lb, "" if la == lb else " is constant false: the branch it guards is dead"))
    cx.floor(floor_key, known, floor, "sequence comparisons with both lengths statically known")


def r3_no_dead_comparison(cx):
    length_mismatch_rule(cx, ("src/payload.rs", "src/table.rs", "src/cloud.rs", "src/types.rs"), "eq-sites-dissector", 3)


def r4_tag_arithmetic(cx):
    prog = cx.prog
    fp = [b for b in prog.bodies if b.path.endswith("payload::Frame as payload::Protocol>::parse")]
    if len(fp) != 1:
        from ..facts import AnchorError
        raise AnchorError("Frame::parse not found")
    fp = fp[0]
    cx.touch(fp)
    # ethertype comparison against the 802.1Q TPID 0x8100
    tpid = False
    for (b, bi, t, la, lb) in eq_sites(prog, bodies=[fp]):
        for a in t["args"]:
            o = deep_root(fp, a)
            if o is None:
                continue
            d = defuse(fp).single_def(o["l"])
            # promoted constant [0x81, 0x00]
            c = _promoted_array(fp, a)
            if c == [0x81, 0x00]:
                tpid = True
    cx.check("tpid-0x8100", tpid, site_of(fp), "the tag is recognised by ethertype bytes [0x81, 0x00]")
    # mask 0x0f on the first tag byte
    masks = []
    for bi, si, s in fp.stmts():
        if s["k"] == "assign" and s["rv"]["k"] == "binop" and s["rv"]["op"] == "BitAnd":
            c = op_const(s["rv"]["b"])
            if c is None:
                c = op_const(s["rv"]["a"])
            masks.append(c)
    cx.check("vlan-mask-12-bits", masks == [0x0f], site_of(fp), "the first tag byte is masked with 0x0f (12-bit VLAN id); masks found: %s" % masks)
    cx.check("no-loop", not fp.cfg.loops(), site_of(fp), "only one tag is consumed (no loop in the dissector)")
    tag_masked_before_use(cx)


def tag_masked_before_use(cx, label="tag"):
    """Sibling agreement of the two address keys: the tag-control bytes are masked to the 12-bit VLAN id *before* they
    are copied into the destination key and before the VLAN-0 test; otherwise the learned (source) key and the
    looked-up (destination) key of one VLAN differ in the priority bits."""
    prog = cx.prog
    fp = [b for b in prog.bodies if b.path.endswith("payload::Frame as payload::Protocol>::parse")]
    if len(fp) != 1:
        from ..facts import AnchorError
        raise AnchorError("Frame::parse not found")
    fp = fp[0]
    cx.touch(fp)
    masks = []
    for bi, si, s in fp.stmts():
        if s["k"] == "assign" and s["rv"]["k"] == "binop" and s["rv"]["op"] == "BitAnd" and s["place"].get("p"):
            masks.append((bi, s["place"]["l"]))
    cx.exact(label + ":mask-stores", len(masks), 1, "masking stores (x[i] &= const) in Frame::parse")
    if len(masks) != 1:
        return
    bm, arr = masks[0]
    uses = []
    for ci, ct in fp.calls():
        if callee_is(ct, "slice::<impl [T]>::copy_from_slice", "slice::<impl [T]>::clone_from_slice") and len(ct["args"]) == 2:
            r = deep_root(fp, ct["args"][1])
            if r is not None and r["l"] == arr:
                o = origin(fp, ct["args"][1])
                uses.append((o[1] if o[0] == "call" else ci, "copy of the tag into the other address"))
    for (b, bi, t, la, lb) in eq_sites(prog, bodies=[fp]):
        for a in t["args"]:
            r = deep_root(fp, a)
            if r is not None and r["l"] == arr:
                o = origin(fp, a)
                uses.append((o[1] if o[0] == "call" else bi, "comparison of the tag (VLAN 0 test)"))
    for bi, si, s in fp.stmts():
        if s["k"] == "assign" and s["rv"]["k"] == "binop" and s["rv"]["op"] in ("Eq", "Ne"):
            for o in (s["rv"]["a"], s["rv"]["b"]):
                pl = op_place(o)
                if pl is None:
                    continue
                r = root_place(fp, pl)
                if r["l"] == arr and any(e["k"] in ("index", "cidx") for e in r.get("p", [])):
                    uses.append((bi, "comparison of the tag (VLAN 0 test)"))
    uses = sorted(set(uses))
    cx.floor(label + ":tag-uses", len(uses), 2, "uses of the tag bytes after they were read")
    for bu, what in uses:
        cx.check(label + ":masked-before:" + what, fp.cfg.dominates(bm, bu), site_of(fp, bu),
                 "the 12-bit mask is applied before the %s" % what)


def _promoted_array(body, op):
    """Constant byte array referenced through a promoted constant, if any."""
    p = op_place(op)
    if p is None:
        return None
    cur = p["l"]
    for _ in range(6):
        d = defuse(body).single_def(cur)
        if not d or d[0] != "stmt":
            return None
        rv = d[3]["rv"]
        if rv["k"] == "use" and rv["op"]["k"] == "const" and isinstance(rv["op"].get("bytes"), list):
            return list(rv["op"]["bytes"])   # a named byte-array constant
        if rv["k"] == "use" and rv["op"]["k"] == "const" and "promoted" in rv["op"]:
            pb = body.promoted[rv["op"]["promoted"]]
            for bi, si, s in pb.stmts():
                if s["k"] == "assign" and s["rv"]["k"] == "aggregate" and s["rv"].get("agg") == "array":
                    return [op_const(o) for o in s["rv"]["ops"]]
                if s["k"] == "assign" and s["rv"]["k"] == "use" and s["rv"]["op"]["k"] == "const" and isinstance(s["rv"]["op"].get("bytes"), list):
                    return list(s["rv"]["op"]["bytes"])   # reference to a named byte-array constant
            return None
        if rv["k"] == "ref":
            cur = rv["place"]["l"]
            continue
        if rv["k"] == "use" and op_place(rv["op"]):
            cur = op_place(rv["op"])["l"]
            continue
        return None
    return None


def r5_expiry(cx):
    prog = cx.prog
    cache = A.method(prog, "ClaimTable", "cache")
    cx.touch(cache)
    ag = [(b, bi, s) for (b, bi, s) in aggregates(prog, "CacheValue") if b.did == cache.did]
    cx.exact("cachevalue-in-cache", len(ag), 1, "CacheValue constructions in ClaimTable::cache")
    for (b, bi, s) in ag:
        rv = s["rv"]
        top = rv["ops"][rv["fields"].index("timeout")]
        now_calls = [ct["dest"]["l"] for ci, ct in b.calls() if A.is_trait_call(ct, "util::TimeSource", "now")]
        t1 = forward_taint(b, seed_locals=now_calls, mut_args=False)
        t2 = forward_taint(b, seed_place_pred=lambda p: place_is_field(root_place(b, p), "ClaimTable", "cache_timeout"), mut_args=False)
        l = op_local(top)
        cx.check("expiry=now+switch-timeout", l is not None and l in t1 and l in t2, site_of(b, span=s["span"]),
                 "a learned entry expires at now + cache_timeout (both flow into the stored expiry)")
    hk = A.method(prog, "ClaimTable", "housekeep")
    ret = calls_on_field(prog, ("HashMap::retain",), "ClaimTable", "cache", bodies=[hk])
    cx.check("cache-swept", len(ret) == 1 and all(hk.cfg.dominates(bi, r) for (_b, bi, _t) in ret for r in hk.cfg.exits), site_of(hk),
             "ClaimTable::housekeep sweeps the cache unconditionally")
    ch = A.cloud_fn(prog, "housekeep")
    calls = [ci for ci, ct in ch.calls() if any(d == hk.did for _k, d in prog.cg.resolve(ch, ct))]
    # unconditional apart from error exits of earlier steps: the call block is on every path to the Ok return
    ok = False
    for ci in calls:
        from ..mirutil import result_return_sites
        oks = [rbi for kind, rbi, info in result_return_sites(ch) if kind == "ok"]
        reach = ch.cfg.reachable_from([0], avoid_blocks=[ci])
        ok = bool(oks) and not any(r in reach for r in oks)
    cx.check("sweep-every-tick", ok, site_of(ch), "GenericCloud::housekeep reaches its Ok return only through table.housekeep()")


def r6_last_writer_wins(cx):
    """Learning makes the sending peer the next hop for the source address on *every* call: each path through
    ClaimTable::cache either inserts CacheValue{peer: <peer argument>, ..} under the <addr argument> or stores the
    peer argument into the existing entry's peer field."""
    prog = cx.prog
    cache = A.method(prog, "ClaimTable", "cache")
    cx.touch(cache)
    writers = []
    for ci, ct in cache.calls():
        if callee_is(ct, "collections::HashMap::insert") and len(ct["args"]) == 3:
            r = deep_root(cache, ct["args"][0])
            if r is None or not place_is_field(r, "ClaimTable", "cache"):
                continue
            k = op_root(cache, ct["args"][1])
            v = origin(cache, ct["args"][2])
            okv = False
            if v[0] == "rvalue" and v[2]["rv"]["k"] == "aggregate" and v[2]["rv"].get("adt", "").endswith("CacheValue"):
                rv = v[2]["rv"]
                pr = op_root(cache, rv["ops"][rv["fields"].index("peer")])
                okv = pr is not None and pr["l"] == 3
            if k is not None and k["l"] == 2 and okv:
                writers.append(ci)
    for bi, si, s in cache.stmts():
        if s["k"] == "assign" and place_is_field(s["place"], "CacheValue", "peer") and s["rv"]["k"] == "use":
            pr = op_root(cache, s["rv"]["op"])
            if pr is not None and pr["l"] == 3:
                writers.append(bi)
    cx.floor("peer-writers", len(writers), 1, "places in ClaimTable::cache that bind the address to the given peer")
    reach = cache.cfg.reachable_from([0], avoid_blocks=writers)
    esc = [x for x in reach if x in cache.cfg.exits]
    cx.check("every-call-rebinds", bool(writers) and not esc, site_of(cache),
             "every path through ClaimTable::cache binds the address to the peer the frame came from (last writer wins)")


def r7_only_learning_refreshes(cx):
    """A learned address is forgotten one switch timeout after the last frame *from* it: the expiry of a cache entry is
    set when the entry is created (ClaimTable::cache for learning, the cold path of lookup for claim decisions) and is
    otherwise only zeroed by withdrawal / disconnect.  Traffic *towards* an address (a lookup hit) must not extend
    it.  Who-may-write rule on CacheValue.timeout: field stores only in set_claims / remove_claims and only of the
    constant 0; constructions only in cache() and lookup()."""
    prog = cx.prog
    w = field_writes(prog, "CacheValue", "timeout")
    bad = []
    for (b, bi, k, s0) in w:
        zero = k == "assign" and s0.get("rv", {}).get("k") == "use" and op_const(s0["rv"]["op"]) == 0
        if not (b.name in ("set_claims", "remove_claims") and zero):
            bad.append((b, bi))
    cx.check("expiry-writers", not bad, site_of(bad[0][0], bad[0][1]) if bad else None,
             "CacheValue.timeout is stored to only by set_claims / remove_claims, and only to expire the entry (found %d other store(s))" % len(bad))
    cx.floor("expiry-zeroing-stores", len(w) - len(bad), 2, "stores that expire cache entries")
    ags = sorted(set(b.name for (b, bi, s0) in aggregates(prog, "CacheValue")))
    cx.check("entry-constructors", set(ags) <= {"cache", "lookup"} and "cache" in ags, None, "cache entries are created only by cache() (learning) and lookup() (claim decision); found %s" % ags)
    # the cache hit of lookup hands out the stored peer through a shared borrow
    lk = A.method(prog, "ClaimTable", "lookup")
    muts = calls_on_field(prog, ("collections::HashMap::get_mut", "collections::HashMap::entry", "collections::HashMap::iter_mut", "collections::HashMap::values_mut"), "ClaimTable", "cache", bodies=[lk])
    cx.check("lookup-hit-read-only", not muts, site_of(lk, muts[0][1]) if muts else site_of(lk), "lookup never borrows the cache entries mutably (a hit does not refresh the entry)")


RULES = [
    ("C13.R1", r1_mode_table, "(mode, device type) -> (learning, broadcast) equals the documented table"),
    ("C13.R2", r2_learning_under_flag, "learning only under the flag, only from received payload, (source address, sending peer)"),
    ("C13.R3", r3_no_dead_comparison, "no comparison of byte sequences with different static lengths in the dissector/table code"),
    ("C13.R4", r4_tag_arithmetic, "802.1Q constants: TPID 0x8100, 12-bit mask, single tag"),
    ("C13.R5", r5_expiry, "learned entries expire at now + switch timeout and are swept each tick"),
    ("C13.R7", r7_only_learning_refreshes, "only frames from an address (learning) set its expiry; a lookup hit never refreshes a cache entry"),
    ("C13.R6", r6_last_writer_wins, "every call of the learning routine rebinds the address to the sending peer"),
]

LEVEL_TEXT = ("Static rules on MIR: the (mode, device type) decision table extracted from GenericCloud::new equals the documented one; the only "
              "call of the learning routine is under the learning flag with (dissected source address, sending peer); no byte-sequence comparison "
              "in the dissector has operands of different static length (such a branch is dead: the VLAN-0 fold); tag constants; expiry wiring."
              " Only learning sets a cache entry's expiry: who-may-write on CacheValue.timeout, lookup never borrows the cache mutably.")
LEVEL_NOTE = "Decides C13.R1-R5 (necessary conditions). Not decided: last-writer-wins and per-VLAN separation over frame histories."
TECHNIQUE = "MIR constant decision-table extraction, static length analysis of comparisons, who-may-call + control dependence, taint"
