"""C18 - generated and password-derived keys are always usable and deterministic (DESIGN.md section 4, C18.R1-R4). Partial."""
from ..engine import site_of
from ..facts import op_place, op_local, op_const, AnchorError
from ..callgraph import callee_is
from ..mirutil import (root_place, op_root, deep_root, origin, defuse, calls_in, forward_taint, success_edges, place_is_field)
from ..region import dominated_by_edges
from ..lossy import decode_sites, check_site, repaired_decoders
from .. import anchors as A
from . import c20


def r1_keys_survive_text_codec(cx):
    prog = cx.prog
    sites = [(b, bi, t) for (b, bi, t) in decode_sites(prog) if b.file == "src/crypto/common.rs"]
    cx.floor("key-decode-sites", len(sites), 1, "from_base62 (or unrepaired wrapper) call sites in crypto/common.rs")
    for (b, bi, t) in sites:
        cx.touch(b)
        check_site(cx, b, bi, t, "key")
    # each key parser obtains its bytes through the text codec: directly (checked above) or through a repairing wrapper
    rep = repaired_decoders(prog)
    for name in ("parse_keypair", "parse_private_key", "parse_public_key"):
        fn = A.method(prog, "Crypto", name)
        cx.touch(fn)
        direct = [bi for (b, bi, t) in sites if b.did == fn.did]
        via = [ci for ci, ct in fn.calls() if any(d in rep for _k, d in prog.cg.resolve(fn, ct))]
        cx.check("parser-decodes:" + name, bool(direct) or bool(via), site_of(fn),
                 "%s decodes its key text %s" % (name, "through a length-restoring wrapper (%s)" % ", ".join(sorted(set(rep.values()))) if via else "with from_base62 directly"))
    from ..lossy import repaired_decoders as _rd


def _derive_sites(prog):
    out = []
    for b in prog.bodies:
        for bi, t in b.calls():
            if t.get("callee") and t["callee"]["path"] == "ring::pbkdf2::derive":
                out.append((b, bi, t))
    return out


def _const_desc(body, op):
    o = origin(body, op)
    if o[0] == "const":
        c = o[1]
        return c.get("static") or c.get("uneval") or c.get("v") or c.get("text")
    if o[0] == "call":
        # NonZeroU32::new(4096).unwrap()
        t = o[2]
        inner = [_const_desc(body, a) for a in t["args"]]
        return "%s(%s)" % (t["callee"]["name"], ",".join(str(x) for x in inner))
    if o[0] == "place":
        return "place"
    return o[0]


def r2_one_derivation(cx):
    prog = cx.prog
    sites = _derive_sites(prog)
    cx.exact("pbkdf2-sites", len(sites), 2, "pbkdf2::derive call sites (genkey and run time)")
    descs = []
    for (b, bi, t) in sites:
        cx.touch(b)
        d = tuple(_const_desc(b, a) for a in t["args"][:3])
        descs.append(d)
        # secret = password.as_bytes()
        o = origin(b, t["args"][3])
        okpw = o[0] == "call" and callee_is(o[2], "str::<impl str>::as_bytes")
        cx.check("secret-is-password:" + b.name, okpw, site_of(b, bi), "the PBKDF2 secret is the password's bytes")
        # output buffer feeds the Ed25519 seed constructor
        out = deep_root(b, t["args"][4])
        seeds = [(ci, ct) for ci, ct in b.calls() if callee_is(ct, "signature::Ed25519KeyPair::from_seed_unchecked")]
        ok = False
        flows = forward_taint(b, seed_locals=[out["l"]], mut_args=False) if out is not None else set()
        for ci, ct in seeds:
            r = deep_root(b, ct["args"][0])
            if r is not None and out is not None and (r["l"] == out["l"] or r["l"] in flows) and ci in b.cfg.reachable_from([bi]):
                ok = True
        cx.check("derived-bytes-are-the-seed:" + b.name, ok, site_of(b, bi), "the 32 derived bytes are handed to Ed25519KeyPair::from_seed_unchecked")
        ln = b.place_ty(out).deref() if out is not None and not out.get("p") else None
        cx.check("seed-width:" + b.name, ln is not None and ln.k == "array" and ln.d.get("len") == 32, site_of(b, bi), "the derivation fills a [u8; 32]")
    if len(descs) == 2:
        cx.check("same-parameters", descs[0] == descs[1] and None not in descs[0], None,
                 "both derivations use the same algorithm, iteration count and salt (%s vs %s)" % (descs[0], descs[1]))
    # no randomness on the password path
    kfp = A.method(prog, "Crypto", "keypair_from_password")
    rnd = [d for d in prog.cg.closure([kfp.did]) if any(callee_is(t, "rand::SecureRandom::fill", "ring::rand::SecureRandom::fill") for _bi, t in prog.by_did[d].calls())]
    cx.check("no-randomness-from-password", not rnd, site_of(kfp), "no SecureRandom::fill is reachable from keypair_from_password")
    gk = A.method(prog, "Crypto", "generate_keypair")
    fills = [(ci, ct) for ci, ct in gk.calls() if A.is_trait_call(ct, "rand::SecureRandom", "fill") or callee_is(ct, "rand::SecureRandom::fill")]
    ders = [bi for (b, bi, t) in sites if b.did == gk.did]
    if fills and ders:
        # the random fill and the derivation are on different arms of the match on the password option
        ok = all(ders[0] not in gk.cfg.reachable_from([ci]) and ci not in gk.cfg.reachable_from([ders[0]]) for ci, ct in fills)
        cx.check("random-only-without-password", ok, site_of(gk), "generate_keypair uses randomness only when no password is given")


def r3_own_key_trusted_by_default(cx):
    prog = cx.prog
    new = A.method(prog, "Crypto", "new")
    cx.touch(new)
    # the locals that become Crypto.trusted_keys / Crypto.key_pair
    from ..mirutil import aggregates
    tk_locals, kp_locals = set(), set()
    for (b2, bi2, s2) in aggregates(prog, "Crypto"):
        if b2.did != new.did:
            continue
        rv2 = s2["rv"]
        for fname, acc in (("trusted_keys", tk_locals), ("key_pair", kp_locals)):
            seeds = set()
            r2 = op_root(new, rv2["ops"][rv2["fields"].index(fname)])
            if r2 is not None:
                seeds.add(r2["l"])
            # walk back through conversion calls (into_boxed_slice().into(), Arc::new)
            cur = rv2["ops"][rv2["fields"].index(fname)]
            for _ in range(5):
                o2 = origin(new, cur)
                if o2[0] == "call" and o2[2]["args"]:
                    cur = o2[2]["args"][0]
                    rr = deep_root(new, cur)
                    if rr is not None:
                        seeds.add(rr["l"])
                else:
                    break
            acc |= seeds
    # the list may arrive through `?` from a (spliced) helper: follow Try::branch, Ok(..) wrappers and moves back
    for acc in (tk_locals, kp_locals):
        for _ in range(6):
            grown = False
            for L in list(acc):
                for d in defuse(new).defs.get(L, []):
                    cand = []
                    if d[0] == "call" and callee_is(d[2], "Try::branch", "ops::Try>::branch") and d[2]["args"]:
                        cand.append(d[2]["args"][0])
                    elif d[0] == "stmt" and d[3]["rv"]["k"] == "aggregate" and d[3]["rv"].get("variant") in ("Ok", "Some") and d[3]["rv"]["ops"]:
                        cand.append(d[3]["rv"]["ops"][0])
                    elif d[0] == "stmt" and d[3]["rv"]["k"] == "use":
                        cand.append(d[3]["rv"]["op"])
                    for o in cand:
                        r = op_root(new, o) if op_place(o) is not None else None
                        if r is not None and r["l"] not in acc:
                            acc.add(r["l"])
                            grown = True
            if not grown:
                break
    cx.check("crypto-ctor-found", bool(tk_locals) and bool(kp_locals), site_of(new), "Crypto::new builds Crypto { key_pair, trusted_keys, .. }")
    pushes = []
    for ci, ct in new.calls():
        if callee_is(ct, "vec::Vec::push") and ct["args"]:
            r = deep_root(new, ct["args"][0])
            if r is not None and r["l"] in tk_locals:
                pushes.append((ci, ct))
    cx.floor("trusted-pushes", len(pushes), 1, "pushes to the trusted key list in Crypto::new")
    empt = [(ci, ct) for ci, ct in new.calls() if callee_is(ct, "vec::Vec::is_empty") and (lambda r: r is not None and r["l"] in tk_locals)(deep_root(new, ct["args"][0]))]
    cx.exact("empty-test", len(empt), 1, "is_empty tests of the trusted key list")
    if empt:
        te = success_edges(new, empt[0][0]).ok_edges
        own = [(ci, ct) for ci, ct in pushes if dominated_by_edges(new, te, ci)]
        cx.exact("own-key-push", len(own), 1, "pushes under the 'no trusted keys configured' branch")
        for ci, ct in own:
            # the pushed key is the public key of the node's own key pair
            tainted = forward_taint(new, seed_locals=sorted(kp_locals), mut_args=True)
            r = deep_root(new, ct["args"][1])
            cx.check("own-public-key", r is not None and r["l"] in tainted, site_of(new, ci), "the key trusted by default is derived from the node's own key pair")
    # configured trusted keys are parsed by parse_public_key (push loop or iterator map + collect)
    ppk = A.method(prog, "Crypto", "parse_public_key")
    parsed = [(b, ci) for b in A.with_closures(prog, new) for ci, ct in b.calls() if any(d == ppk.did for _k, d in prog.cg.resolve(b, ct))]
    cx.floor("configured-keys-parsed", len(parsed), 1, "parse_public_key calls for the configured trusted keys in Crypto::new")


def r4_public_from_private(cx):
    prog = cx.prog
    for name in ("public_key_from_private_key", "generate_keypair"):
        fn = A.method(prog, "Crypto", name)
        cx.touch(fn)
        pk = [(ci, ct) for ci, ct in fn.calls() if A.is_trait_call(ct, "signature::KeyPair", "public_key") or callee_is(ct, "signature::KeyPair::public_key")]
        cx.floor("public_key-calls:" + name, len(pk), 1, "KeyPair::public_key calls in " + name)
        for ci, ct in pk:
            r = deep_root(fn, ct["args"][0])
            d = defuse(fn).defs.get(r["l"], []) if r is not None else []
            src_ok = False
            for dd in d:
                if dd[0] == "call" and callee_is(dd[2], "result::Result::unwrap", "ops::Try::branch", "Crypto::parse_private_key"):
                    src_ok = True
                if dd[0] == "stmt":
                    src_ok = True
            tb64 = [x for x, xt in fn.calls() if xt.get("callee") and xt["callee"]["path"] == "util::to_base62" and x in fn.cfg.reachable_from([ci])]
            cx.check("public-from-same-pair:" + name, src_ok and bool(tb64), site_of(fn, ci), "the printed public key is computed from the key pair built from that private key / seed")


VERBATIM_CALLS = ("ops::Deref::deref", "Deref>::deref", "string::String::as_str", "String::as_str", "convert::AsRef::as_ref", "AsRef>::as_ref",
                  "borrow::Borrow::borrow", "option::Option::<T>::as_deref", "option::Option::<T>::as_ref", "Option::as_deref", "Option::as_ref",
                  "as_deref", "as_str", "ops::Try::branch")


def _verbatim_source(body, op, depth=0):
    """Trace a &str / Option<&str> operand back to the place it is borrowed from, through identity-like calls only
    (deref, as_str, as_ref, as_deref, borrow). Returns the root place, or the offending ('call'|'rvalue'|'const', ...)."""
    o = origin(body, op)
    if depth > 8:
        return ("deep",)
    if o[0] == "call":
        t = o[2]
        if t.get("args") and callee_is(t, *VERBATIM_CALLS):
            return _verbatim_source(body, t["args"][0], depth + 1)
        if callee_is(t, "structopt::StructOpt::from_args", "StructOpt>::from_args", "dialoguer::Password::interact", "Password::<'_>::interact", "Password::interact"):
            return ("place", {"l": 0, "parsed": True})
        return ("call", t["callee"]["path"] if t.get("callee") else "?")
    if o[0] == "place":
        return ("place", o[1])
    if o[0] == "rvalue":
        rv = o[2]["rv"]
        if rv["k"] == "ref":
            return _verbatim_source(body, rv["place"], depth + 1)
        if rv["k"] == "use":
            return _verbatim_source(body, rv["op"], depth + 1)
        if rv["k"] == "aggregate" and rv.get("adt", "").endswith("option::Option"):
            if not rv["ops"]:
                return ("place", {"l": 0, "none": True})
            return _verbatim_source(body, rv["ops"][0], depth + 1)
        return ("rvalue", rv["k"])
    return (o[0],)


def r6_password_verbatim(cx):
    """The password text reaches PBKDF2 exactly as configured: at the run-time site (Crypto::new -> keypair_from_password) and at the
    genkey site (generate_keypair) alike. A normalisation (trim, case folding, ...) at one of them makes the two derivations disagree
    for some passwords - the printed key pair is then not the one the node uses."""
    prog = cx.prog
    n = 0
    # (a) the receiver of as_bytes at each derivation is the function's own password argument
    for (b, bi, t) in _derive_sites(prog):
        cx.touch(b)
        o = origin(b, t["args"][3])
        if o[0] == "call" and callee_is(o[2], "str::<impl str>::as_bytes"):
            src = _verbatim_source(b, o[2]["args"][0])
            ok = src[0] == "place" and 1 <= src[1]["l"] <= b.arg_count
            cx.check("derivation-takes-argument-verbatim:" + b.name, ok, site_of(b, bi),
                     "the text handed to PBKDF2 is the function's password argument, untransformed (source: %s)" % (src[0] if src[0] != "call" else "call " + src[1]))
            n += 1
        else:
            cx.check("derivation-takes-argument-verbatim:" + b.name, False, site_of(b, bi),
                     "the text handed to PBKDF2 is the function's password argument, untransformed (the secret is not str::as_bytes of it)")
    # (b) every caller of the two derivation functions passes a stored / parsed password untransformed
    targets = [A.method(prog, "Crypto", "keypair_from_password"), A.method(prog, "Crypto", "generate_keypair")]
    for tgt in targets:
        for b in prog.bodies:
            for bi, t in b.calls():
                if any(d == tgt.did for _k, d in prog.cg.resolve(b, t)) and t.get("args"):
                    cx.touch(b)
                    src = _verbatim_source(b, t["args"][0])
                    cx.check("caller-passes-password-verbatim:%s->%s" % (b.name, tgt.name.split("::")[-1]), src[0] == "place", site_of(b, bi),
                             "the password argument is a configured value borrowed as is (source: %s)" % (src[0] if src[0] != "call" else "call " + src[1]))
                    n += 1
    cx.floor("password-flow-sites", n, 4, "password hand-over sites (2 derivations + their callers)")


RULES = [
    ("C18.R1", r1_keys_survive_text_codec, "keys decoded from text are length-restored before fixed-length use (base-62 drops leading zero bytes)"),
    ("C18.R2", r2_one_derivation, "one password derivation: identical PBKDF2 parameters at genkey and run time, no randomness"),
    ("C18.R3", r3_own_key_trusted_by_default, "own public key is trusted iff no trusted keys are configured"),
    ("C18.R5", c20.r2_field_flow_matrix, "password and key texts reach the crypto configuration exactly as given, from file and command line alike (= C20.R2: every stored value is its source field, no transformation)"),
    ("C18.R6", r6_password_verbatim, "the password text reaches both PBKDF2 derivations untransformed (no trim / case folding at one site only)"),
    ("C18.R4", r4_public_from_private, "public key is derived from the private key's pair"),
]

LEVEL_TEXT = ("Static data-flow and sibling-agreement rules on MIR: every value decoded by the big-number text codec (which drops leading zero bytes) passes a "
              "length-restoring step before it is used with a fixed length (32-byte test, Ed25519 seed constructor); the two PBKDF2 derivations have "
              "identical constant arguments and feed the seed constructor; randomness is unreachable from the password path; the own public key is "
              "trusted exactly when the configured list is empty."
              " Password and key texts reach the crypto configuration exactly as given (shared with C20.R2), and from there both PBKDF2 "
              "derivations through identity calls only (no normalisation at one site).")
LEVEL_NOTE = "Partial: decides C18.R1-R4. Not decided: acceptance of every printed key as a value statement; ring's Ed25519 contracts."
TECHNIQUE = "source-to-sink path rule (must-pass-through a restoring step) on MIR, constant argument sibling agreement, call-graph reachability"
