"""C10 - forwarding isolation (DESIGN.md section 4, C10.R1-R4)."""
from ..engine import site_of
from ..facts import op_place, op_local, op_const
from ..callgraph import callee_is
from ..mirutil import (success_edges, root_place, op_root, deep_root, place_is_field, calls_on_field, origin, defuse,
                       calls_in, result_return_sites, loops_of, iter_source, dominated_by_ok)
from ..region import dominated_by_edges, bool_place_edges, switch_edges_on_variant
from .. import anchors as A
from . import c02
from .c01 import _sending_functions
from .c09 import HM_LOOKUP


def r1_no_relay(cx):
    prog = cx.prog
    hp = A.cloud_fn(prog, "handle_payload_from")
    senders = _sending_functions(prog)
    closure = prog.cg.closure([hp.did])
    cx.touch(hp)
    bad = sorted(prog.by_did[d].path for d in closure if d in senders and
                 any(A.is_socket_send(t) for _bi, t in prog.by_did[d].calls()))
    cx.check("no-send-from-received-payload", not bad, site_of(hp),
             "no function reachable from handle_payload_from (call-graph closure of %d functions) calls Socket::send%s" % (len(closure), (": " + ", ".join(bad)) if bad else ""))
    # positive control: the analysis does see sends from the interface path
    hid = A.cloud_fn(prog, "handle_interface_data")
    c2 = prog.cg.closure([hid.did])
    pos = [d for d in c2 if any(A.is_socket_send(t) for _bi, t in prog.by_did[d].calls())]
    cx.check("positive-control", len(pos) >= 2, site_of(hid), "positive control: %d sending functions are reachable from handle_interface_data" % len(pos))
    # the other receive-side arms that may send are handshake/rotation replies only: from cloud handle_message, sends are
    # reachable only through send_to under Reply/InitializedWithReply (checked by C02.R1) or connect (dialling, handshake only)
    hm = A.cloud_fn(prog, "handle_message")
    names = {"send_msg", "broadcast_msg"}
    bad2 = []
    for d in prog.cg.closure([hm.did]):
        b = prog.by_did[d]
        if b.name in names and b.impl_self() is not None and (b.impl_self().adt_path() or "").endswith("GenericCloud"):
            bad2.append(b.path)
    cx.check("no-payload-sender-from-receive-path", not bad2, site_of(hm),
             "neither send_msg nor broadcast_msg (the payload senders) is reachable from the receive-side handle_message")


def r2_single_reader(cx):
    prog = cx.prog
    reads = A.calls_where(prog, A.is_device_read)
    cx.exact("device-read-sites", len(reads), 1, "Device::read call sites")
    hde = A.cloud_fn(prog, "handle_device_event")
    hid = A.cloud_fn(prog, "handle_interface_data")
    for (b, bi, t) in reads:
        cx.touch(b)
        cx.check("read-in-handle_device_event", b.did == hde.did, site_of(b, bi), "Device::read only in handle_device_event")
        calls = [ci for ci, ct in b.calls() if any(d == hid.did for _k, d in prog.cg.resolve(b, ct))]
        ok = len(calls) == 1
        if ok:
            ct = b.blocks[calls[0]]["term"]
            r1 = deep_root(b, t["args"][1])
            r2 = deep_root(b, ct["args"][1])
            ok = r1 is not None and r2 is not None and r1["l"] == r2["l"] and b.cfg.dominates(bi, calls[0])
        cx.check("read-buffer-is-dissected", ok, site_of(b, bi), "the buffer read from the interface is the one handed to handle_interface_data")
    # in handle_interface_data the message bytes are not written before sending (only prepend/seal by send paths)
    cx.touch(hid)
    stores = []
    for bi, si, s in hid.stmts():
        if s["k"] == "assign" and s["place"].get("p"):
            r = root_place(hid, s["place"])
            if r["l"] == 2:
                stores.append(bi)
    mutcalls = [ci for ci, ct in hid.calls() if callee_is(ct, "MsgBuffer::message_mut", "MsgBuffer::buffer", "MsgBuffer::clone_from", "MsgBuffer::set_length", "MsgBuffer::set_start", "MsgBuffer::clear", "MsgBuffer::take_prefix", "MsgBuffer::prepend_byte")]
    cx.check("no-rewrite-before-send", not stores and not mutcalls, site_of(hid), "handle_interface_data does not modify the frame it forwards")


def r3_one_copy_per_selected_peer(cx):
    prog = cx.prog
    hid = A.cloud_fn(prog, "handle_interface_data")
    cx.touch(hid)
    data_ty = prog.const_value("MESSAGE_TYPE_DATA")
    E = {}
    for ci, ct in hid.calls():
        for _k, d in prog.cg.resolve(hid, ct):
            n = prog.by_did[d].name
            if n in ("send_msg", "broadcast_msg"):
                ty_arg = ct["args"][2] if n == "send_msg" else ct["args"][1]
                E[ci] = (n, op_const(ty_arg))
            elif n == "count_dropped_payload":
                E[ci] = (n, None)
    cx.exact("forwarding-actions", len(E), 3, "send_msg / broadcast_msg / count_dropped_payload sites in handle_interface_data")
    for ci, (n, ty) in sorted(E.items()):
        if n != "count_dropped_payload":
            cx.check("type-DATA:" + n, ty == data_ty, site_of(hid, ci), "%s forwards with MESSAGE_TYPE_DATA" % n)
        cx.check("not-in-loop:" + n, not hid.cfg.in_loop(ci), site_of(hid, ci), "%s is not inside a loop" % n)
        reach = hid.cfg.reachable_from(hid.cfg.succ.get(ci, []))
        again = [x for x in E if x in reach]
        cx.check("at-most-once:" + n, not again, site_of(hid, ci), "no second forwarding action is reachable after %s" % n)
    # at least one: past the dissector, no return without a forwarding action
    parse = [(ci, ct) for ci, ct in hid.calls() if A.is_trait_call(ct, "payload::Protocol", "parse")]
    cx.exact("dissector-calls", len(parse), 1, "Protocol::parse calls in handle_interface_data")
    for ci, ct in parse:
        oc = success_edges(hid, ci)
        bad = []
        for e in oc.ok_edges:
            reach = hid.cfg.reachable_from_edge(e, avoid_blocks=list(E.keys()))
            bad += [x for x in reach if x in hid.cfg.exits]
        cx.check("at-least-once", bool(oc.ok_edges) and not bad, site_of(hid, ci), "every frame that passes the dissector reaches exactly one forwarding action")
    # the lookup decides: Some -> send_msg ; None -> broadcast (flag) / drop
    lk = A.method(prog, "ClaimTable", "lookup")
    lcalls = [ci for ci, ct in hid.calls() if any(d == lk.did for _k, d in prog.cg.resolve(hid, ct))]
    cx.exact("lookup-calls", len(lcalls), 1, "table.lookup calls in handle_interface_data")
    te, fe = bool_place_edges(hid, lambda r: place_is_field(r, "GenericCloud", "broadcast"))
    for lc in lcalls:
        oc = success_edges(hid, lc)
        for ci, (n, ty) in sorted(E.items()):
            if n == "send_msg":
                ok = dominated_by_edges(hid, oc.ok_edges, ci)
                # destination is the lookup's result
                a = hid.blocks[ci]["term"]["args"][1]
                o = op_root(hid, a)
                cx.check("next-hop-from-lookup", ok, site_of(hid, ci), "send_msg is used only when the lookup found a next hop")
            elif n == "broadcast_msg":
                cx.check("broadcast-when-unknown-and-flag", dominated_by_edges(hid, oc.err_edges, ci) and dominated_by_edges(hid, te, ci), site_of(hid, ci),
                         "broadcast only for unknown destinations when the broadcast flag is set")
            else:
                cx.check("drop-when-unknown-and-no-flag", dominated_by_edges(hid, oc.err_edges, ci) and dominated_by_edges(hid, fe, ci), site_of(hid, ci),
                         "drop (and count) only for unknown destinations when the broadcast flag is clear")
    # broadcast_msg: one Socket::send per iteration over peers, early exits are error propagation only
    bm = A.cloud_fn(prog, "broadcast_msg")
    cx.touch(bm)
    sends = [ci for ci, ct in bm.calls() if A.is_socket_send(ct)]
    cx.exact("broadcast-sends", len(sends), 1, "Socket::send sites in broadcast_msg")
    peers_loop = None
    for li in loops_of(bm):
        src = iter_source(bm, li)
        if src is not None and place_is_field(src, "GenericCloud", "peers"):
            peers_loop = li
    cx.check("broadcast-sweeps-peers", peers_loop is not None, site_of(bm), "broadcast_msg iterates over the peer map")
    if peers_loop is not None and sends:
        s0 = sends[0]
        inner = [li for li in loops_of(bm) if li.header != peers_loop.header and li.header in peers_loop.blocks and s0 in li.blocks]
        cx.check("one-send-per-peer", s0 in peers_loop.blocks and not inner, site_of(bm, s0), "exactly one send per iteration (not in a nested loop)")
        # every iteration passes the send: from the Some edge of next(), the loop header is not reachable avoiding the send
        nexts = peers_loop.next_calls
        ok = True
        for nb in nexts:
            oc = success_edges(bm, nb)
            for e in oc.ok_edges:
                reach = bm.cfg.reachable_from_edge(e, avoid_blocks=[s0])
                if nb in reach:
                    ok = False
        cx.check("every-peer-gets-a-copy", ok and bool(nexts), site_of(bm, s0), "no iteration can return to the loop head without passing Socket::send")
        oks = [rbi for kind, rbi, info in result_return_sites(bm) if kind == "ok"]
        bad = []
        for (src, dst) in peers_loop.other_exits:
            reach = bm.cfg.reachable_from([dst])
            if any(r in reach for r in oks):
                bad.append(src)
        cx.check("early-exit-only-on-error", not bad, site_of(bm, bad[0]) if bad else site_of(bm), "the sweep is left early only by error propagation")


def r4_non_peers_never_reach_interface(cx):
    prog = cx.prog
    hnm = A.cloud_fn(prog, "handle_net_message")
    hm = A.cloud_fn(prog, "handle_message")
    cx.touch(hnm)
    pcalls = calls_in(hnm, "PeerCrypto::handle_message")
    cx.floor("peercrypto-dispatch-sites", len(pcalls), 3, "PeerCrypto::handle_message sites in the dispatcher")
    init_true = set()
    for ci, ct in calls_in(hnm, "is_init_message"):
        init_true |= success_edges(hnm, ci).ok_edges
    # `let is_init = is_init_message(..)` tested later through the stored bool
    for ci, ct in pcalls:
        recv = deep_root(hnm, ct["args"][0])
        kind = "other"
        if recv is not None:
            d = defuse(hnm).single_def(recv["l"])
            if d and d[0] == "call" and callee_is(d[2], *HM_LOOKUP):
                r = op_root(hnm, d[2]["args"][0])
                if r is not None and place_is_field(r, "GenericCloud", "pending_inits"):
                    kind = "pending"
                elif r is not None and place_is_field(r, "GenericCloud", "peers"):
                    kind = "peer"
            elif d and d[0] == "call" and callee_is(d[2], "Crypto::peer_instance"):
                kind = "fresh"
        if kind == "fresh":
            cx.check("fresh-object-only-for-handshake", dominated_by_edges(hnm, init_true, ci), site_of(hnm, ci),
                     "a throw-away handshake object is consulted only for datagrams carrying the handshake marker")
        else:
            cx.check("dispatch-to-known:" + kind, kind in ("pending", "peer"), site_of(hnm, ci),
                     "datagrams are handed only to a pending handshake or an established peer of that source address")
    calls = [ci for ci, ct in hnm.calls() if any(d == hm.did for _k, d in prog.cg.resolve(hnm, ct))]
    cx.exact("handle_message-calls", len(calls), 1, "calls of GenericCloud::handle_message in the dispatcher")
    for ci in calls:
        # reached only with the Ok result of one of those PeerCrypto::handle_message calls
        t = hnm.blocks[ci]["term"]
        o = op_root(hnm, t["args"][2])
        ok = False
        if o is not None:
            fs = [e for e in o.get("p", []) if e["k"] == "downcast"]
            ok = bool(fs) and fs[0].get("v") == "Ok"
        cx.check("only-ok-results-handled", ok, site_of(hnm, ci), "handle_message receives only the Ok payload of a PeerCrypto::handle_message result")


def r5_selection_keys_agree(cx):
    """The peer selected for a frame is found by looking up its destination key among the keys learned from source
    addresses: both keys must be built the same way (same VLAN masking), or known destinations are flooded."""
    from .c13 import tag_masked_before_use
    tag_masked_before_use(cx, "keys")


RULES = [
    ("C10.R1", r1_no_relay, "no Socket::send reachable from handle_payload_from; payload senders unreachable from the receive path"),
    ("C10.R2", r2_single_reader, "single Device::read whose buffer is the one dissected and forwarded unmodified"),
    ("C10.R3", r3_one_copy_per_selected_peer, "exactly one forwarding action per frame; one send per peer in broadcast"),
    ("C10.R4", r4_non_peers_never_reach_interface, "datagrams are dispatched only to pending handshakes / peers / throw-away responder for handshake messages"),
    ("C10.R5", r5_selection_keys_agree, "source (learned) and destination (looked-up) keys of the Ethernet dissector are built alike"),
    ("C10.R6", c02.r3_type_byte_after_open, "a datagram becomes a Message (and so payload) only behind decrypt_message, which is the AEAD gate unless plain was negotiated (= C02.R3): a non-peer's datagram never reaches the interface"),
    ("C10.R7", c02.r2_plain_only_by_consent, "the plain-mode flag that bypasses the gate is set only by a completed negotiation (= C02.R2), never by the mere absence of a key"),
]

LEVEL_TEXT = ("Static call-graph reachability and per-path counting on MIR: nothing reachable from the received-payload handler can send; the only "
              "interface read feeds the dissector and the forwarding action unmodified; every path past the dissector contains exactly one of "
              "{send to next hop, broadcast, drop+count}; broadcast sends once per peer; the dispatcher never hands a non-handshake datagram from a "
              "non-peer to message handling."
              " A datagram becomes payload only behind decrypt_message (AEAD gate unless the negotiated plain flag), shared with C02.")
LEVEL_NOTE = "Decides C10.R1-R4 (necessary conditions). Not decided: byte identity and exactly-once over a simulated network."
TECHNIQUE = "call-graph reachability (who-may-call), per-path action counting on the CFG, loop-exit classification"
