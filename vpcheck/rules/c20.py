"""C20 - configuration sources combine as documented (DESIGN.md section 4, C20.R1-R4)."""
from ..engine import site_of
from ..facts import op_place, op_local, op_const, AnchorError
from ..callgraph import callee_is
from ..mirutil import (root_place, op_root, deep_root, origin, defuse, calls_in, aggregates, adt_match)
from ..region import dominated_by_edges
from ..decision import enum_switch_edges
from ..totality import check_region, closure_region
from .. import anchors as A

# file path -> Config field (where names differ); everything else maps by equal name
FILE_ALIAS = {
    "device.type_": "device_type", "device.name": "device_name", "device.path": "device_path", "device.fix_rp_filter": "fix_rp_filter",
    "beacon.store": "beacon_store", "beacon.load": "beacon_load", "beacon.interval": "beacon_interval", "beacon.password": "beacon_password",
    "statsd.server": "statsd_server", "statsd.prefix": "statsd_prefix",
}
ARGS_ALIAS = {
    "type_": "device_type", "device": "device_name", "password": "crypto.password", "public_key": "crypto.public_key",
    "private_key": "crypto.private_key", "trusted_keys": "crypto.trusted_keys", "algorithms": "crypto.algorithms",
}
# boolean switches of the command line: (Config field, constant stored when the flag is given)
ARGS_FLAGS = {"fix_rp_filter": ("fix_rp_filter", 1), "no_auto_claim": ("auto_claim", 0), "no_port_forwarding": ("port_forwarding", 0), "daemon": ("daemonize", 1)}
LIST_FIELDS = {"advertise_addresses", "peers", "claims", "crypto.trusted_keys"}
MAP_FIELDS = {"hooks"}
# documented exception: a non-empty algorithm list replaces the previous one
REPLACE_LIST = {"crypto.algorithms"}
NOT_IN_FILE = {"daemonize"}  # the file format has no entry for it (command line only)


def _names(place):
    out = []
    for e in place.get("p", []):
        if e["k"] == "field":
            n = str(e.get("n", e["i"]))
            if not n.isdigit():
                out.append(n)
    return ".".join(out)


def source_of(body, op, depth=0):
    """Root place (rooted at a parameter) an operand's value is taken from, looking through Some(..)
    wrapping, clones and string conversions."""
    if depth > 10:
        return None
    o = origin(body, op)
    if o[0] == "place":
        return o[1]
    if o[0] == "rvalue":
        rv = o[2]["rv"]
        if rv["k"] == "aggregate" and rv.get("variant") in ("Some", "Ok") and len(rv["ops"]) == 1:
            return source_of(body, rv["ops"][0], depth + 1)
        return None
    if o[0] == "call":
        t = o[2]
        if callee_is(t, "clone::Clone::clone", "string::ToString::to_string", "convert::Into::into", "convert::From::from", "borrow::ToOwned::to_owned") and t["args"]:
            return source_of(body, t["args"][0], depth + 1)
    return None


def self_stores(body):
    """Stores through `self` (_1): yields (block, dest field path, mode, source operand or None, span)."""
    out = []
    for bi, si, s in body.stmts():
        if s["k"] != "assign" or not s["place"].get("p"):
            continue
        r = root_place(body, s["place"])
        if r["l"] != 1:
            continue
        dest = _names(r)
        if not dest:
            continue
        src = s["rv"]["op"] if s["rv"]["k"] == "use" else None
        if s["rv"]["k"] == "aggregate":
            src = {"k": "agg", "rv": s["rv"]}
        out.append((bi, dest, "assign", src, s["span"], s))
    for bi, t in body.calls():
        if not t["args"]:
            continue
        r = deep_root(body, t["args"][0])
        if r is None or r["l"] != 1:
            continue
        dest = _names(r)
        if not dest:
            continue
        mode = None
        if callee_is(t, "vec::Vec::append", "vec::Vec::extend", "iter::Extend::extend", "vec::Vec::push", "vec::Vec::extend_from_slice"):
            mode = "append"
        elif callee_is(t, "collections::HashMap::insert", "collections::HashMap::extend"):
            mode = "insert"
        elif callee_is(t, "vec::Vec::clear", "collections::HashMap::clear", "vec::Vec::truncate", "mem::take", "option::Option::take"):
            mode = "clear"
        if mode is None:
            # a call that takes &mut of a field: unknown mutation
            p = op_place(t["args"][0])
            if p is not None and body.place_ty(p).k == "ref" and body.place_ty(p).d.get("mut"):
                mode = "mutcall:" + t["callee"]["name"]
            else:
                continue
        out.append((bi, dest, mode, t["args"][1] if len(t["args"]) > 1 else None, t["span"], t))
    # mutations of a field of self inside a closure run by `iter.for_each(|..| self.field.insert(..))`
    from ..mirutil import sweep_closures, defuse as _du
    for (cb, pb, pbi) in sweep_closures(body.prog, body):
        if pb.did != body.did:
            continue
        # the closure value: operand 1 of the for_each call
        rcl = op_root(body, body.blocks[pbi]["term"]["args"][1])
        dcl = _du(body).single_def(rcl["l"]) if rcl is not None else None
        if not (dcl and dcl[0] == "stmt" and dcl[3]["rv"].get("agg") == "closure"):
            continue
        upvars = dcl[3]["rv"]["ops"]
        for ci, t in cb.calls():
            if not t["args"]:
                continue
            r = deep_root(cb, t["args"][0])
            if r is None or r["l"] != 1:
                continue
            fl = [e for e in r.get("p", []) if e["k"] == "field"]
            if not fl or fl[0]["i"] >= len(upvars):
                continue
            up = upvars[fl[0]["i"]]
            pr = deep_root(body, up) if op_place(up) is not None else None
            if pr is None or pr["l"] != 1:
                continue
            dest = _names(pr)
            rest = [str(e.get("n", e["i"])) for e in fl[1:]]
            if rest:
                dest = ".".join([dest] + rest) if dest else ".".join(rest)
            if not dest:
                continue
            mode = None
            if callee_is(t, "vec::Vec::push", "vec::Vec::extend_from_slice", "vec::Vec::append"):
                mode = "append"
            elif callee_is(t, "collections::HashMap::insert"):
                mode = "insert"
            if mode is not None:
                out.append((pbi, dest, mode, None, t["span"], t))
    # calls whose destination is a field
    for bi, t in body.calls():
        if t["dest"].get("p"):
            r = root_place(body, t["dest"])
            if r["l"] == 1 and _names(r):
                out.append((bi, _names(r), "assign", {"k": "callresult", "term": t}, t["span"], t))
    return out


def config_fields(prog):
    cfg = [a for p, a in prog.adts.items() if p == "config::Config"]
    cc = [a for p, a in prog.adts.items() if p == "crypto::common::Config"]
    if len(cfg) != 1 or len(cc) != 1:
        raise AnchorError("Config ADTs not found")
    out = []
    for f in cfg[0]["variants"][0]["fields"]:
        if f["name"] == "crypto":
            for g in cc[0]["variants"][0]["fields"]:
                out.append("crypto." + g["name"])
        else:
            out.append(f["name"])
    return out


def r1_precedence(cx):
    prog = cx.prog
    main = [b for b in prog.bodies if b.path == "main"]
    if len(main) != 1:
        raise AnchorError("main not found")
    main = main[0]
    cx.touch(main)

    def calls_named(n):
        return [ci for ci, ct in main.calls() if ct.get("callee") and ct["callee"]["path"] == n]
    dflt = [ci for ci, ct in main.calls() if callee_is(ct, "default::Default::default") and ct.get("callee", {}).get("resolved", "").endswith("config::Config as std::default::Default>::default")]
    mf = calls_named("config::Config::merge_file")
    ma = calls_named("config::Config::merge_args")
    runs = [ci for ci, ct in main.calls() if ct.get("callee") and ct["callee"]["path"] == "run"]
    cx.exact("default-calls", len(dflt), 1, "Config::default() in main")
    cx.exact("merge_args-calls", len(ma), 1, "merge_args calls in main")
    cx.floor("merge_file-calls", len(mf), 1, "merge_file calls in main")
    cx.floor("run-calls", len(runs), 2, "run::<..>() calls in main")
    if len(dflt) != 1 or len(ma) != 1:
        return
    for ci in mf:
        cx.check("file-after-default", main.cfg.dominates(dflt[0], ci), site_of(main, ci), "the file is merged into the defaults")
        cx.check("file-before-args", ma[0] not in [] and ci not in main.cfg.reachable_from(main.cfg.succ.get(ma[0], [])), site_of(main, ci),
                 "no path reaches merge_file after merge_args")
        # same config object
        r = op_root(main, main.blocks[ci]["term"]["args"][0])
        r2 = op_root(main, main.blocks[ma[0]]["term"]["args"][0])
        cx.check("same-object", r is not None and r2 is not None and r["l"] == r2["l"], site_of(main, ci), "file and arguments are merged into the same Config")
    for ci in runs:
        cx.check("run-after-args", main.cfg.dominates(ma[0], ci), site_of(main, ci), "every path to run() passes merge_args")
    cx.check("args-after-default", main.cfg.dominates(dflt[0], ma[0]), site_of(main, ma[0]), "arguments are merged onto an object that started as Config::default()")


def _check_merge(cx, fn, alias, kind):
    prog = cx.prog
    stores = self_stores(fn)
    cx.floor("stores:" + kind, len(stores), 30, "stores through self in " + fn.name)
    covered = set()
    enum_edges = enum_switch_edges(fn)
    for (bi, dest, mode, src, span, node) in stores:
        srcp = None
        if src is not None and src.get("k") in ("copy", "move"):
            srcp = source_of(fn, src)
        elif src is not None and src.get("k") == "const":
            srcp = None
        sname = _names(srcp) if srcp is not None and srcp["l"] == 2 else None
        # hooks given as "name:script" on the command line are split: source is the hook list
        if sname is None and src is not None and src.get("k") in ("copy", "move"):
            o = origin(fn, src)
            if o[0] == "call":
                # value computed from a source field (to_string of a sub-slice, clone of a list)
                inner = None
                for a in o[2]["args"]:
                    rr = deep_root(fn, a)
                    if rr is not None and rr["l"] == 2:
                        inner = rr
                if inner is not None:
                    sname = _names(inner)
        if kind == "args" and sname is None and src is not None and src.get("k") == "const":
            # boolean switch: constant stored under the flag
            flags = [f for f, (d, c) in ARGS_FLAGS.items() if d == dest]
            okc = bool(flags) and op_const(src) == ARGS_FLAGS[flags[0]][1]
            # control: dominated by the true edge of args.<flag>
            from ..region import bool_place_edges
            te, fe = bool_place_edges(fn, lambda r: r["l"] == 2 and _names(r) in flags)
            cx.check("flag:%s" % dest, okc and dominated_by_edges(fn, te, bi), site_of(fn, span=span),
                     "switch --%s stores the constant %s into %s only when given" % (flags[0] if flags else "?", op_const(src), dest))
            covered.add(dest)
            continue
        if sname is None:
            # iteration variables of `for (k, v) in file.hooks` / `for s in args.hook`
            if dest in ("hooks", "hook") and mode in ("insert", "assign"):
                covered.add(dest)
                cx.check("hook-entry:%s:%s" % (kind, dest), True, site_of(fn, span=span), "per-event hooks are inserted one by one", how="table")
                continue
            cx.check("source-unknown:%s:%s" % (kind, dest), False, site_of(fn, span=span), "the value stored into %s does not come from a field of the merged source" % dest)
            continue
        if kind == "args" and sname in ARGS_FLAGS and ARGS_FLAGS[sname] == (dest, 1) and dest in NOT_IN_FILE and mode == "assign":
            # `self.daemonize = args.daemon`: a switch copied unconditionally is equivalent to "set when given" when
            # nothing but the default (false) can have set the field before: no file entry, default false
            dflt = [b2 for b2 in prog.bodies if b2.path.endswith("config::Config as std::default::Default>::default")]
            dval = None
            for b2 in dflt:
                for (b3, bi3, s3) in aggregates(prog, "config::Config"):
                    if b3.did == b2.did and dest in s3["rv"]["fields"]:
                        dval = op_const(s3["rv"]["ops"][s3["rv"]["fields"].index(dest)])
            cx.check("flag:%s" % dest, dval == 0, site_of(fn, span=span),
                     "switch --%s is copied into %s, which only the default (false, found %s) can have set before (no file entry)" % (sname, dest, dval))
            covered.add(dest)
            continue
        want = alias.get(sname, sname)
        cx.check("wiring:%s:%s" % (kind, dest), want == dest, site_of(fn, span=span),
                 "%s.%s is merged into Config.%s (expected Config.%s)" % ("file" if kind == "file" else "args", sname, dest, want))
        covered.add(dest)
        # overwrite vs accumulate
        if dest in LIST_FIELDS:
            cx.check("accumulates:%s:%s" % (kind, dest), mode == "append", site_of(fn, span=span), "list-valued option %s accumulates (append), found mode %s" % (dest, mode))
        elif dest in MAP_FIELDS:
            cx.check("accumulates:%s:%s" % (kind, dest), mode in ("insert", "append"), site_of(fn, span=span), "per-event hooks accumulate (insert / extend), found mode %s" % mode)
        else:
            cx.check("overwrites:%s:%s" % (kind, dest), mode == "assign", site_of(fn, span=span), "option %s is assigned, found mode %s" % (dest, mode))
            if dest in REPLACE_LIST:
                continue
            # assigned only when the source is present: dominated by a Some edge on the source field
            ok = False
            for (edge, place, ty, val, is_oth) in enum_edges:
                if not is_oth and val == 1 and ty.k == "adt" and ty.d["path"].endswith("option::Option"):
                    pn = _names(root_place(fn, place))
                    if root_place(fn, place)["l"] == 2 and pn == sname and fn.cfg.dominates(edge, bi):
                        ok = True
            cx.check("only-when-present:%s:%s" % (kind, dest), ok, site_of(fn, span=span), "%s is overwritten only when the source value is present (Some)" % dest)
            # ... and on nothing else: every branch the store is control-dependent on tests the source (param 2)
            foreign = []
            for e in fn.cfg.controlling_edges(bi):
                sb = e[1]
                tt = fn.blocks[sb]["term"]
                if tt["k"] != "switch":
                    continue
                dl = op_local(tt["discr"])
                dd = defuse(fn).single_def(dl) if dl is not None else None
                src_ok = False
                if dd and dd[0] == "stmt":
                    rvv = dd[3]["rv"]
                    pl = rvv.get("place") if rvv["k"] == "discr" else (op_place(rvv.get("op", {})) if rvv["k"] == "use" else None)
                    if pl is not None and root_place(fn, pl)["l"] == 2:
                        src_ok = True
                elif dd and dd[0] == "call":
                    rr = [deep_root(fn, a) for a in dd[2]["args"]]
                    src_ok = bool(rr) and all(r is not None and r["l"] == 2 for r in rr)
                if not src_ok:
                    foreign.append(sb)
            cx.check("depends-only-on-source:%s:%s" % (kind, dest), not foreign, site_of(fn, span=span),
                     "the overwrite of %s is conditional on the presence of the source value only (not on the current value or another setting)" % dest)
    return covered


def r2_field_flow_matrix(cx):
    prog = cx.prog
    mf = A.method(prog, "config::Config", "merge_file")
    ma = A.method(prog, "config::Config", "merge_args")
    cx.touch(mf, ma)
    fields = config_fields(prog)
    cov_f = _check_merge(cx, mf, FILE_ALIAS, "file")
    cov_a = _check_merge(cx, ma, ARGS_ALIAS, "args")
    for f in fields:
        if f not in NOT_IN_FILE:
            cx.check("file-covers:" + f, f in cov_f, site_of(mf), "merge_file carries the setting %s" % f)
        cx.check("args-cover:" + f, f in cov_a, site_of(ma), "merge_args carries the setting %s" % f)
    # inverse mapping
    icf = A.method(prog, "config::Config", "into_config_file")
    cx.touch(icf)
    inv = {v: k for k, v in FILE_ALIAS.items()}
    seen = set()
    ags = [(b, bi, s) for (b, bi, s) in aggregates(prog, "ConfigFile") if b.did == icf.did]
    cx.exact("configfile-ctor", len(ags), 1, "ConfigFile constructions in into_config_file")

    def walk(rv, prefix):
        for fname, op in zip(rv["fields"], rv["ops"]):
            path = (prefix + "." + fname) if prefix else fname
            o = origin(icf, op)
            if o[0] == "rvalue" and o[2]["rv"]["k"] == "aggregate":
                rv2 = o[2]["rv"]
                if rv2.get("variant") == "Some" and len(rv2["ops"]) == 1:
                    o2 = origin(icf, rv2["ops"][0])
                    if o2[0] == "rvalue" and o2[2]["rv"]["k"] == "aggregate" and o2[2]["rv"].get("agg") == "adt" and o2[2]["rv"].get("fields"):
                        walk(o2[2]["rv"], path)
                        continue
                    src = source_of(icf, rv2["ops"][0])
                elif rv2.get("agg") == "adt" and rv2.get("fields") and not rv2.get("is_enum"):
                    walk(rv2, path)
                    continue
                else:
                    src = None
            else:
                src = source_of(icf, op)
            sname = _names(src) if src is not None and src["l"] == 1 else None
            if path == "crypto":
                seen.update(f for f in fields if f.startswith("crypto."))
                cx.check("inverse:crypto", sname == "crypto", site_of(icf), "the crypto section is carried over as a whole")
                continue
            want = FILE_ALIAS.get(path, path)
            cx.check("inverse:" + path, sname == want, site_of(icf), "file entry %s is produced from Config.%s (found %s)" % (path, want, sname))
            if sname:
                seen.add(sname)
    for (b, bi, s) in ags:
        walk(s["rv"], "")
    for f in fields:
        if f not in NOT_IN_FILE:
            cx.check("inverse-covers:" + f, f in seen, site_of(icf), "into_config_file expresses the setting %s" % f)


def r4_netmask_total(cx):
    prog = cx.prog
    pn = [b for b in prog.bodies if b.path == "parse_ip_netmask"]
    if len(pn) != 1:
        raise AnchorError("parse_ip_netmask not found")
    region = closure_region(prog, pn)
    st = check_region(cx, region, "C20", pn, "netmask")
    cx.floor("netmask-sites", st["sites"], 3, "panic-capable sites in parse_ip_netmask")


# options whose values are split at commas by the argument parser: their values cannot contain a comma by syntax
# (base-62 keys, cipher names, CIDR claims, socket addresses).  Hook command lines and peer host names can.
DELIMITED_OPTIONS = {"trusted-keys", "algorithms", "claims", "advertise-addresses"}
MULTI_OPTIONS = DELIMITED_OPTIONS | {"peers", "hook"}


def r5_argument_values_verbatim(cx):
    """"The value given on the command line wins": the value must reach merge_args as it was typed.  The derive macro
    turns the attributes of `struct Args` into a chain of clap builder calls per option; the chain is read back from
    the generated `augment_clap` and compared with the reviewed multiplicity table: only the options whose values
    cannot contain a comma are split at commas (`use_delimiter` / `value_delimiter` / `require_delimiter`), and every
    list-valued option may be given several times (`multiple`) so that its values accumulate."""
    prog = cx.prog
    ac = [b for b in prog.bodies if b.path.endswith("StructOptInternal>::augment_clap") and "config::Args" in b.path]
    if len(ac) != 1:
        raise AnchorError("Args::augment_clap not found")
    b = ac[0]
    cx.touch(b)

    def sconst(op):
        o = origin(b, op)
        if o[0] == "const":
            return o[1].get("str", o[1].get("v"))
        return None
    chains = {}
    cur = None
    bi = 0
    seen = set()
    while bi is not None and bi not in seen:
        seen.add(bi)
        t = b.blocks[bi]["term"]
        if t["k"] == "call" and t.get("callee"):
            pth = t["callee"].get("path", "")
            m = pth.split("::")[-1]
            if "clap::Arg" in pth:
                if m == "with_name":
                    cur = sconst(t["args"][0])
                    chains[cur] = []
                elif cur is not None:
                    chains[cur].append((m, [sconst(a) for a in t["args"][1:]]))
            bi = t.get("target")
        elif t["k"] in ("goto", "drop", "assert"):
            bi = t["target"]
        else:
            bi = None
    cx.floor("options", len(chains), 30, "options built by Args::augment_clap")
    delimited = {n for n, ch in chains.items() if any(m in ("use_delimiter", "require_delimiter") and a and a[0] == 1 for m, a in ch) or any(m == "value_delimiter" for m, a in ch)}
    multi = {n for n, ch in chains.items() if any(m == "multiple" and a and a[0] == 1 for m, a in ch)}
    extra = sorted(x for x in delimited - DELIMITED_OPTIONS if x is not None)
    cx.check("comma-splitting-only-where-reviewed", not extra and None not in delimited, site_of(b),
             "values are split at commas only for %s (found additionally: %s)" % (sorted(DELIMITED_OPTIONS), extra))
    missing = sorted(MULTI_OPTIONS - multi)
    cx.check("list-options-repeatable", not missing, site_of(b), "every list-valued option can be given several times (missing: %s)" % missing)


RULES = [
    ("C20.R1", r1_precedence, "precedence by construction: default, then file, then arguments, then run"),
    ("C20.R2", r2_field_flow_matrix, "field-flow matrix of merge_file / merge_args / into_config_file; overwrite vs accumulate"),
    ("C20.R4", r4_netmask_total, "parse_ip_netmask is total"),
    ("C20.R5", r5_argument_values_verbatim, "option values reach merge_args as typed: comma splitting and repeatability as reviewed (clap builder chain of Args)"),
]

LEVEL_TEXT = ("Static field-flow and ordering rules on MIR: main builds the configuration as default -> merge_file -> merge_args -> run on one "
              "object; every store in merge_file/merge_args draws from exactly its counterpart field (alias table of 17 names), scalar settings are "
              "assigned only under 'source present', list-valued ones are only appended/inserted, every setting is covered by both merges and by the "
              "inverse mapping; the netmask computation is proved panic-free by interval analysis for every prefix length."
              " The clap builder chain generated for struct Args is compared with a reviewed multiplicity / comma-splitting table.")
LEVEL_NOTE = "Decides C20.R1, R2 (incl. R3 overwrite/accumulate), R4. Not decided: clap/structopt and serde attribute behaviour (trusted), documented default values as values."
TECHNIQUE = "field-sensitive def-use (flow matrix) over MIR, dominance ordering in main, interval abstract interpretation"
