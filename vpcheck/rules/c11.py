"""C11 - routing follows the most specific live claim (DESIGN.md section 4, C11.R1-R4). Partial."""
from ..engine import site_of
from ..facts import op_place, op_local, op_const, AnchorError
from ..callgraph import callee_is
from ..mirutil import (root_place, op_root, deep_root, origin, defuse, calls_in, place_is_field, success_edges, loops_of,
                       iter_source, aggregates, forward_taint, calls_on_field)
from ..region import dominated_by_edges
from .. import anchors as A
from . import c10, c12, c13


def _value_place(body, op, depth=0):
    """Root place an integer operand is loaded from, looking through integer casts."""
    p = op_place(op)
    if p is None or depth > 6:
        return None
    r = root_place(body, p)
    if not [e for e in r.get("p", []) if e["k"] == "field"]:
        d = defuse(body).single_def(r["l"])
        if d and d[0] == "stmt" and d[3]["rv"]["k"] == "cast" and d[3]["rv"]["cast"].startswith("IntToInt"):
            return _value_place(body, d[3]["rv"]["op"], depth + 1)
    return r


def _is_prefix_len(place):
    return place is not None and any(e.get("n") == "prefix_len" for e in place.get("p", []) if e["k"] == "field")


def r1_full_scan_strict_improvement(cx):
    prog = cx.prog
    lk = A.method(prog, "ClaimTable", "lookup")
    cx.touch(lk)
    scan = None
    for li in loops_of(lk):
        src = iter_source(lk, li)
        if src is not None and place_is_field(src, "ClaimTable", "claims"):
            scan = li
    if scan is None:
        # accepted alternative idiom: claims.iter().filter(|e| e.claim.matches(addr)).max_by_key(|e| e.claim.prefix_len)
        mb = [(ci, ct) for ci, ct in lk.calls() if callee_is(ct, "iter::Iterator::max_by_key", "iter::Iterator::max_by")]
        fl = [(ci, ct) for ci, ct in lk.calls() if callee_is(ct, "iter::Iterator::filter")]
        ok = len(mb) == 1 and len(fl) == 1
        if ok:
            src = deep_root(lk, fl[0][1]["args"][0])
            # the filtered iterator is built from self.claims
            cur = fl[0][1]["args"][0]
            from_claims = False
            for _ in range(6):
                o = origin(lk, cur)
                if o[0] == "call" and o[2]["args"]:
                    r = deep_root(lk, o[2]["args"][0])
                    if r is not None and place_is_field(r, "ClaimTable", "claims"):
                        from_claims = True
                        break
                    cur = o[2]["args"][0]
                else:
                    break
            closures = prog.closures_of(lk)
            f_ok = any(any(callee_is(t2, "types::Range::matches") for _b, t2 in cb.calls()) for cb in closures)
            k_ok = any(any(s2["k"] == "assign" and s2["rv"]["k"] == "use" and _is_prefix_len(_value_place(cb, s2["rv"]["op"])) and s2["place"]["l"] == 0 for _b, _s, s2 in cb.stmts()) for cb in closures)
            ok = from_claims and f_ok and k_ok
        cx.check("alternative-idiom", ok, site_of(lk),
                 "lookup selects claims.iter().filter(matches(addr)).max_by_key(prefix_len): every claim is considered and the most specific match wins")
        gets = calls_on_field(prog, ("collections::HashMap::get",), "ClaimTable", "cache", bodies=[lk])
        cx.exact("cache-first", len(gets), 1, "cache lookups in ClaimTable::lookup")
        return
    cx.check("scan-found", True, site_of(lk), "lookup scans the claim list")
    cx.check("full-scan", not scan.other_exits and bool(scan.exhaust_exits), site_of(lk, scan.header), "the scan visits every claim (exhaustion exit only)")
    # candidate updates inside the loop: stores to locals that are live after the loop
    matches = [(ci, ct) for ci, ct in lk.calls() if ci in scan.blocks and callee_is(ct, "types::Range::matches")]
    cx.exact("matches-calls", len(matches), 1, "Range::matches calls in the scan")
    # strict comparison of the claim's prefix length with the best so far
    gt_edges = set()
    best_local = None
    for bi in scan.blocks:
        for s in lk.blocks[bi]["stmts"]:
            if s["k"] == "assign" and s["rv"]["k"] == "binop" and s["rv"]["op"] in ("Gt", "Lt"):
                a, b = s["rv"]["a"], s["rv"]["b"]
                if s["rv"]["op"] == "Lt":
                    a, b = b, a
                is_plen = _is_prefix_len(_value_place(lk, a))
                rb = root_place(lk, op_place(b)) if op_place(b) else None
                if is_plen and rb is not None and not rb.get("p"):
                    best_local = rb["l"]
                    l = s["place"]["l"]
                    t = lk.blocks[bi]["term"]
                    if t["k"] == "switch" and op_local(t["discr"]) == l:
                        for k, v in enumerate(t["values"]):
                            if v != 0:
                                gt_edges.add(("e", bi, k))
                        if t["values"] == [0]:
                            gt_edges.add(("e", bi, 1))
    # variant: the best length is not kept in a second variable but derived from the best entry in every iteration:
    # best.map_or(-1, |b| b.claim.prefix_len as isize)
    derived = None
    if best_local is not None:
        dd = defuse(lk).single_def(best_local)
        if dd and dd[0] == "call" and callee_is(dd[2], "option::Option::map_or") and len(dd[2]["args"]) == 3 and dd[1] in scan.blocks:
            dflt = op_const(dd[2]["args"][1])
            cand = op_root(lk, dd[2]["args"][0])
            rcl = op_root(lk, dd[2]["args"][2])
            dcl = defuse(lk).single_def(rcl["l"]) if rcl is not None else None
            clos_ok = False
            if dcl and dcl[0] == "stmt" and dcl[3]["rv"].get("agg") == "closure":
                cb = prog.by_did.get(dcl[3]["rv"]["closure_did"])
                if cb is not None:
                    rets = [s2 for _b, _s, s2 in cb.stmts() if s2["k"] == "assign" and s2["place"]["l"] == 0 and not s2["place"].get("p")]
                    clos_ok = len(rets) == 1 and rets[0]["rv"]["k"] in ("use", "cast") and _is_prefix_len(_value_place(cb, rets[0]["rv"]["op"]))
            if dflt is not None and dflt < 0 and cand is not None and not cand.get("p") and clos_ok:
                derived = cand["l"]
    cx.check("strict-comparison", bool(gt_edges) and best_local is not None, site_of(lk, scan.header), "the candidate's prefix length is compared strictly (>) with the best so far")
    if best_local is not None:
        rng = lk.local_ty(best_local).int_range()
        cx.check("comparison-type-holds-all-lengths", rng is not None and rng[0] <= -1 and rng[1] >= 255, site_of(lk, scan.header),
                 "the type in which prefix lengths are compared holds -1 (nothing found) and every u8 prefix length up to /128 without wrapping (range %s)" % (rng,))
    m_true = success_edges(lk, matches[0][0]).ok_edges if matches else set()
    # every store to the best-so-far locals inside the loop is dominated by both conditions
    upd = []
    # candidate state = locals assigned inside the scan and read after it (live-out), plus the best-length local
    after = lk.cfg.reachable_from([dst for (_src, dst) in scan.exhaust_exits]) - scan.blocks
    read_after = set()
    for bi in after:
        for s in lk.blocks[bi]["stmts"]:
            if s["k"] == "assign":
                rv = s["rv"]
                for o in ([rv.get("op")] if rv["k"] in ("use", "cast") else [rv.get("a"), rv.get("b")] if rv["k"] == "binop" else rv.get("ops", []) if rv["k"] == "aggregate" else []):
                    if o is not None and op_place(o) is not None:
                        read_after.add(op_place(o)["l"])
                if rv["k"] in ("ref", "discr"):
                    read_after.add(rv["place"]["l"])
    for bi in scan.blocks:
        for s in lk.blocks[bi]["stmts"]:
            if s["k"] == "assign" and not s["place"].get("p") and (s["place"]["l"] in read_after or s["place"]["l"] == best_local) and lk.local_name(s["place"]["l"]) is not None:
                upd.append((bi, s))
    if derived is not None:
        cx.check("best-length-derived-from-candidate", any(s2["place"]["l"] == derived for _b2, s2 in upd), site_of(lk, scan.header),
                 "the best length so far is read from the current best entry (None counts as -1), which is the candidate updated by the scan")
    cx.floor("candidate-updates", len(upd), 1 if derived is not None else 2, "updates of the best candidate inside the scan")
    for bi, s in upd:
        cx.check("update-needs-longer-and-matching:%s" % ("best-length" if s["place"]["l"] == best_local else "candidate"),
                 dominated_by_edges(lk, gt_edges, bi) and dominated_by_edges(lk, m_true, bi), site_of(lk, span=s["span"]),
                 "the candidate is replaced only when the claim is strictly more specific and contains the address")
    # the new best length is the claim's own prefix length
    for bi, s in upd:
        if s["place"]["l"] == best_local:
            okp = s["rv"]["k"] in ("use", "cast") and _is_prefix_len(_value_place(lk, s["rv"]["op"]))
            cx.check("best-length-from-claim", okp, site_of(lk, span=s["span"]), "the best length so far is updated from the chosen claim's prefix length")
    # initial value below every possible prefix length
    init = [s for bi, si, s in lk.stmts() if s["k"] == "assign" and not s["place"].get("p") and s["place"]["l"] == best_local and bi not in scan.blocks]
    if derived is not None:
        init_c = [s for bi, si, s in lk.stmts() if s["k"] == "assign" and not s["place"].get("p") and s["place"]["l"] == derived and bi not in scan.blocks]
        cx.check("initial-best-below-zero", len(init_c) == 1 and init_c[0]["rv"]["k"] == "aggregate" and init_c[0]["rv"].get("variant") == "None", site_of(lk),
                 "the scan starts without a candidate, whose length counts as -1, so that /0 claims can match")
    else:
        cx.check("initial-best-below-zero", len(init) == 1 and init[0]["rv"]["k"] == "use" and (op_const(init[0]["rv"]["op"]) or 0) < 0, site_of(lk), "the scan starts with a best length below 0 so that /0 claims can match")
    # the matched address is lookup's own argument
    for ci, ct in matches:
        a = deep_root(lk, ct["args"][1])
        cx.check("matches-the-destination", a is not None and a["l"] == 2, site_of(lk, ci), "claims are matched against the looked-up address")
    # the cache is consulted first and returns the cached peer
    gets = calls_on_field(prog, ("collections::HashMap::get",), "ClaimTable", "cache", bodies=[lk])
    cx.exact("cache-first", len(gets), 1, "cache lookups in ClaimTable::lookup")


def r2_cache_bounded_by_claim_life(cx):
    prog = cx.prog
    lk = A.method(prog, "ClaimTable", "lookup")
    ags = [(b, bi, s) for (b, bi, s) in aggregates(prog, "CacheValue") if b.did == lk.did]
    cx.exact("cachevalue-in-lookup", len(ags), 1, "CacheValue constructions in lookup")
    for (b, bi, s) in ags:
        rv = s["rv"]
        top = rv["ops"][rv["fields"].index("timeout")]
        o = origin(b, top)
        ok = False
        if o[0] == "call" and callee_is(o[2], "cmp::min", "cmp::Ord::min"):
            now_calls = [ct["dest"]["l"] for ci, ct in b.calls() if A.is_trait_call(ct, "util::TimeSource", "now")]
            t_now = forward_taint(b, seed_locals=now_calls, mut_args=False)
            t_sw = forward_taint(b, seed_place_pred=lambda p: place_is_field(root_place(b, p), "ClaimTable", "cache_timeout"), mut_args=False)
            args = o[2]["args"]
            r0 = root_place(b, op_place(args[0]))["l"] if op_place(args[0]) else None
            r1 = deep_root(b, args[1])
            a_ok = r0 in t_now and r0 in t_sw
            b_ok = r1 is not None and any(e.get("n") == "timeout" and (e.get("adt") or "").endswith("ClaimEntry") for e in r1.get("p", []) if e["k"] == "field")
            if not (a_ok and b_ok):
                r0b = root_place(b, op_place(args[1]))["l"] if op_place(args[1]) else None
                r1b = deep_root(b, args[0])
                a_ok = r0b in t_now and r0b in t_sw
                b_ok = r1b is not None and any(e.get("n") == "timeout" and (e.get("adt") or "").endswith("ClaimEntry") for e in r1b.get("p", []) if e["k"] == "field")
            ok = a_ok and b_ok
        cx.check("expiry=min(now+switch-timeout,claim-expiry)", ok, site_of(b, span=s["span"]),
                 "a cached decision expires at min(now + switch timeout, expiry of the claim it came from)")
        p = rv["ops"][rv["fields"].index("peer")]
        pr = deep_root(b, p)
        cx.check("cached-peer-is-claim-owner", pr is not None and any(e.get("n") == "peer" for e in pr.get("p", []) if e["k"] == "field"), site_of(b, span=s["span"]), "the cached next hop is the owner of the chosen claim")


RULES = [
    ("C11.R1", r1_full_scan_strict_improvement, "full scan with strict improvement on (prefix length, match)"),
    ("C11.R2", r2_cache_bounded_by_claim_life, "cache entries expire at min(now + switch timeout, claim expiry)"),
    ("C11.R3", c10.r3_one_copy_per_selected_peer, "unknown destination: broadcast flag decides between all peers and drop+count (= C10.R3)"),
    ("C11.R4a", c13.r5_expiry, "expiry sweep every tick (= C13.R5)"),
    ("C11.R4b", c12.r3_announcement_wiring, "withdrawal/disconnect zero the expiries of claims and cache entries (= C12.R3)"),
    ("C11.R4c", c12.r2_complete_sweep, "those sweeps are complete (= C12.R2)"),
]

LEVEL_TEXT = ("Static idiom and flow rules on MIR: the lookup visits every claim and replaces its candidate only under (strictly longer prefix AND match); "
              "the cached decision's expiry is the minimum of now + switch timeout and the claim's expiry; unknown destinations are broadcast or dropped+counted "
              "by the broadcast flag; expiry sweeps run every tick and withdrawal/disconnect zero claim and cache expiries in complete sweeps.")
LEVEL_NOTE = ("Partial: decides C11.R1-R4. Not decided: that Range::matches computes prefix containment (bit arithmetic on runtime values) and hence that the "
              "scan returns the longest prefix; C11.R5 (over-long prefixes cannot match by overflow) is not built.")
TECHNIQUE = "MIR loop-exit classification, control dependence on comparison edges, taint"
