"""C04 - no (key, nonce) pair is used twice (DESIGN.md section 4, C04.R1-R6)."""
from ..engine import site_of
from ..facts import op_place, op_local, op_const, AnchorError
from ..callgraph import callee_is
from ..mirutil import (root_place, op_root, deep_root, origin, defuse, calls_in, loops_of, iter_source, place_is_field,
                       success_edges, field_writes, aggregates, forward_taint)
from ..region import dominated_by_edges, write_summary
from ..lengths import const_of
from .. import anchors as A


def _seal_fn(prog):
    sites = A.calls_where(prog, A.is_aead_seal)
    if len(sites) != 1:
        raise AnchorError("expected exactly one seal call site, found %d" % len(sites))
    return sites[0]


def r1_who_may_write_send_counter(cx):
    prog = cx.prog
    w = field_writes(prog, "CryptoKey", "send_nonce")
    inc = A.method(prog, "Nonce", "increment")
    (sb, sbi, st) = _seal_fn(prog)
    cx.floor("send_nonce-write-sites", len(w), 1, "stores / &mut borrows of CryptoKey.send_nonce")
    for (b, bi, k, s) in w:
        cx.touch(b)
        ok = False
        why = ""
        if k == "mutborrow" and b.did == sb.did:
            # the borrow is handed to Nonce::increment only
            dst = s["place"]["l"]
            users = [(ci, ct) for ci, ct in b.calls() if any(op_local(a) == dst or (op_place(a) is not None and root_place(b, op_place(a))["l"] == dst and False) for a in ct["args"])]
            # follow one reborrow
            tmp = {dst}
            for bi2, si2, s2 in b.stmts():
                if s2["k"] == "assign" and s2["rv"]["k"] in ("ref", "use") and not s2["place"].get("p"):
                    src = s2["rv"].get("place") or op_place(s2["rv"].get("op", {})) if s2["rv"]["k"] == "ref" else op_place(s2["rv"]["op"])
                    if src is not None and src["l"] in tmp:
                        tmp.add(s2["place"]["l"])
            users = [(ci, ct) for ci, ct in b.calls() if any(op_local(a) in tmp for a in ct["args"])]
            ok = bool(users) and all(any(d == inc.did for _k, d in prog.cg.resolve(b, ct)) for ci, ct in users)
            why = "mutable borrow handed to Nonce::increment in the sealing function"
        cx.check("writer:%s:%s" % (b.name, k), ok, site_of(b, bi), "send counter is written only by %s" % (why or "the constructor / increment-before-seal"))
    # construction: only CryptoKey::new
    ag = aggregates(prog, "CryptoKey")
    cx.check("constructors", sorted(set(b.path for (b, bi, s) in ag)) == ["crypto::core::CryptoKey::new"], None, "CryptoKey is constructed only in CryptoKey::new")


def r2_increment_before_use(cx):
    prog = cx.prog
    (b, sbi, st) = _seal_fn(prog)
    inc = A.method(prog, "Nonce", "increment")
    cx.touch(b)
    incs = [(ci, ct) for ci, ct in b.calls() if any(d == inc.did for _k, d in prog.cg.resolve(b, ct))]
    cx.exact("increments", len(incs), 1, "Nonce::increment calls in the sealing function")
    if len(incs) != 1:
        return
    ci, ct = incs[0]
    r = deep_root(b, ct["args"][0])
    cx.check("increments-send-counter", r is not None and place_is_field(r, "CryptoKey", "send_nonce"), site_of(b, ci), "the incremented counter is the slot's send counter")
    cx.check("increment-dominates-seal", b.cfg.dominates(ci, sbi), site_of(b, ci), "the increment dominates the seal")
    cx.check("increment-not-in-loop", not b.cfg.in_loop(ci) and not b.cfg.in_loop(sbi), site_of(b, ci), "neither increment nor seal is inside a loop (one increment per seal)")
    # header write: write_all(extra, &send_nonce.as_bytes()[5..]) dominated by the increment
    hdr = [(wi, wt) for wi, wt in b.calls() if callee_is(wt, "io::Write::write_all")]
    okh = False
    for wi, wt in hdr:
        o = deep_root(b, wt["args"][1])
        if o is not None and place_is_field(o, "CryptoKey", "send_nonce"):
            okh = b.cfg.dominates(ci, wi)
    cx.check("header-after-increment", okh, site_of(b, ci), "the counter bytes written to the envelope header are read after the increment")
    # the nonce handed to the seal flows from the same counter, read after the increment
    nl = root_place(b, op_place(st["args"][1]))["l"] if op_place(st["args"][1]) is not None else None
    tainted = forward_taint(b, seed_place_pred=lambda p: place_is_field(root_place(b, p), "CryptoKey", "send_nonce"), mut_args=False)
    cx.check("seal-uses-counter", nl in tainted, site_of(b, sbi), "the AEAD nonce given to the seal flows from the send counter")
    ab = [(xi, xt) for xi, xt in b.calls() if callee_is(xt, "Nonce::as_bytes")]
    cx.check("counter-read-after-increment", bool(ab) and all(b.cfg.dominates(ci, xi) for xi, xt in ab), site_of(b, ci), "every read of the counter bytes follows the increment")
    # the slot sealed with is the slot whose counter was incremented: both index keys[current_key]
    keyr = deep_root(b, st["args"][0])
    cx.check("same-slot", keyr is not None and r is not None and keyr["l"] == r["l"], site_of(b, sbi), "the key used for sealing and the incremented counter belong to the same slot")


def r3_fresh_random_start(cx):
    prog = cx.prog
    new = A.method(prog, "CryptoKey", "new")
    rnd = A.method(prog, "Nonce", "random")
    cx.touch(new, rnd)
    for (b, bi, s) in aggregates(prog, "CryptoKey"):
        rv = s["rv"]
        op = rv["ops"][rv["fields"].index("send_nonce")]
        r = op_root(b, op)
        d = defuse(b).defs.get(r["l"], []) if r is not None else []
        ok = any(dd[0] == "call" and any(x == rnd.did for _k, x in prog.cg.resolve(b, dd[2])) for dd in d)
        cx.check("start-from-random:" + b.name, ok, site_of(b, span=s["span"]), "a new key's send counter starts from Nonce::random")
    fills = [(ci, ct) for ci, ct in rnd.calls() if A.is_trait_call(ct, "rand::SecureRandom", "fill") or callee_is(ct, "rand::SecureRandom::fill")]
    cx.check("random-uses-secure-rng", len(fills) == 1, site_of(rnd), "Nonce::random fills from SecureRandom")
    rk = A.method(prog, "CryptoCore", "rotate_key")
    cx.touch(rk)
    calls = [(ci, ct) for ci, ct in rk.calls() if any(d == new.did for _k, d in prog.cg.resolve(rk, ct))]
    cx.exact("rotate-constructs", len(calls), 1, "CryptoKey::new calls in rotate_key")
    for ci, ct in calls:
        h = op_root(rk, ct["args"][2])
        cx.check("rotate-keeps-half", h is not None and place_is_field(h, "CryptoCore", "nonce_half"), site_of(rk, ci), "a rotated-in key is created in the core's own nonce half")
    # stores to keys[..] only with such a fresh key
    stores = [(bi, s) for bi, si, s in rk.stmts() if s["k"] == "assign" and place_is_field(s["place"], "CryptoCore", "keys")]
    for bi, s in stores:
        src = op_root(rk, s["rv"]["op"]) if s["rv"]["k"] == "use" else None
        ok = src is not None and any(dd[0] == "call" and dd[1] in [c for c, _ in calls] for dd in defuse(rk).defs.get(src["l"], []))
        cx.check("slot-gets-fresh-key", ok, site_of(rk, span=s["span"]), "key slots are overwritten only with a freshly constructed CryptoKey")
    kw = field_writes(prog, "CryptoCore", "keys")
    fns = sorted(set(b.name for (b, bi, k, s) in kw if k == "assign"))
    cx.check("slot-writers", set(fns) <= {"rotate_key"}, None, "key slots are assigned only by rotate_key (found %s)" % fns)


def r4_disjoint_halves(cx):
    prog = cx.prog
    cnew = A.method(prog, "CryptoCore", "new")
    hi = A.method(prog, "InitState", "handle_init")
    callers = [(prog.by_did[c], bb) for (c, bb, kind) in prog.cg.callers.get(cnew.did, [])]
    hs = [(cb, bb) for (cb, bb) in callers if cb.did == hi.did]
    cx.exact("handshake-core-sites", len(hs), 2, "CryptoCore::new sites in handle_init")
    others = sorted(set(cb.path for (cb, bb) in callers if cb.did != hi.did))
    cx.check("other-core-sites", others == ["crypto::core::create_dummy_pair"], None,
             "the only other constructor site is create_dummy_pair (speed measurement pair, constant halves; table exception) - found %s" % others, how="table")
    dp = [b for b in prog.bodies if b.path == "crypto::core::create_dummy_pair"]
    if dp:
        cal = sorted(set(prog.by_did[c].path for (c, bb, k) in prog.cg.callers.get(dp[0].did, [])))
        cx.check("dummy-pair-only-for-speed-test", cal == ["crypto::core::test_speed"], None, "create_dummy_pair is called only by test_speed (found %s)" % cal)
    descs = []
    for (cb, bb) in hs:
        t = cb.blocks[bb]["term"]
        o = origin(cb, t["args"][1])
        desc = None
        if o[0] == "call":
            c = o[2].get("callee") or {}
            if c.get("name") in ("gt", "lt", "ge", "le") and len(o[2]["args"]) == 2:
                rs = []
                for a in o[2]["args"]:
                    r = deep_root(cb, a)
                    if r is None:
                        rs.append("?")
                    elif r["l"] == 1 and place_is_field(r, "InitState", "salted_node_id_hash"):
                        rs.append("own")
                    else:
                        rs.append("peer:%s" % (cb.local_name(r["l"]) or r["l"]))
                desc = (c["name"], tuple(rs))
        descs.append(desc)
        strict = desc is not None and desc[0] in ("gt", "lt")
        cx.check("half-by-strict-order:%d" % len(descs), strict and "own" in desc[1] and any(x.startswith("peer") for x in desc[1]), site_of(cb, bb),
                 "the nonce half is a strict order comparison of the own and the peer's salted id (%s)" % (desc,))
    if len(descs) == 2:
        cx.check("same-comparison-in-both-arms", descs[0] is not None and descs[0] == descs[1], site_of(hi), "both handshake arms compute the half by the same comparison (%s vs %s)" % (descs[0], descs[1]))
    # equality of the ids is excluded earlier: an equality test on the own salted id whose true edge returns Err dominates
    eqs = []
    for ci, ct in hi.calls():
        c = ct.get("callee") or {}
        if c.get("name") == "eq" and len(ct["args"]) == 2:
            rs = [deep_root(hi, a) for a in ct["args"]]
            if any(r is not None and r["l"] == 1 and place_is_field(r, "InitState", "salted_node_id_hash") for r in rs):
                eqs.append(ci)
    ok = False
    for ci in eqs:
        oc = success_edges(hi, ci)
        if all(dominated_by_edges(hi, oc.err_edges, bb) for (cb, bb) in hs):
            ok = True
    cx.check("equal-ids-excluded", ok, site_of(hi), "both core constructions are dominated by the 'ids differ' edge of the self-connection test")


def r5_counter_arithmetic(cx):
    prog = cx.prog
    inc = A.method(prog, "Nonce", "increment")
    cx.touch(inc)
    nonce_len = prog.const_value("NONCE_LEN")
    arr = inc.local_ty(1).deref()
    # idiom A: for i in (0..N).rev() { b = self.0[i].wrapping_add(1); self.0[i] = b; if b > 0 { return } }
    loops = loops_of(inc)
    idiom = None
    if len(loops) == 1:
        li = loops[0]
        rng = [s for bi, si, s in inc.stmts() if s["k"] == "assign" and s["rv"]["k"] == "aggregate" and s["rv"].get("adt", "").endswith("ops::Range")]
        rev = [ci for ci, ct in inc.calls() if callee_is(ct, "iter::Iterator::rev")]
        wadd = [(ci, ct) for ci, ct in inc.calls() if callee_is(ct, "num::<impl u8>::wrapping_add") and ci in li.blocks]
        okr = len(rng) == 1 and [op_const(o) for o in rng[0]["rv"]["ops"]] == [0, nonce_len]
        if not rng:
            # idiom A': for byte in self.0.iter_mut().rev(): the whole array, last byte first
            im = [ct for ci, ct in inc.calls() if callee_is(ct, "slice::<impl [T]>::iter_mut") and ct["args"]]
            okr = len(im) == 1 and (lambda r: r is not None and r["l"] == 1 and len([e for e in r.get("p", []) if e["k"] == "field"]) == 1)(deep_root(inc, im[0]["args"][0]))
        okw = len(wadd) == 1 and op_const(wadd[0][1]["args"][1]) == 1
        # store back at the same index
        stores = [(bi, s) for bi, si, s in inc.stmts() if s["k"] == "assign" and any(e["k"] in ("index", "deref") for e in s["place"].get("p", [])) and bi in li.blocks]
        # early exit iff the new byte is non-zero
        exit_ok = False
        for (src, dst) in li.other_exits:
            t = inc.blocks[src]["term"]
            if t["k"] == "switch":
                l = op_local(t["discr"])
                d = defuse(inc).single_def(l) if l is not None else None
                if d and d[0] == "stmt" and d[3]["rv"]["k"] == "binop" and d[3]["rv"]["op"] in ("Gt", "Ne") and op_const(d[3]["rv"]["b"]) == 0:
                    # exit edge is the true edge
                    k = inc.cfg.succ[src].index(dst)
                    exit_ok = (k >= len(t["values"])) or t["values"][k] != 0
        if okr and bool(rev) and okw and len(stores) == 1 and exit_ok and len(li.other_exits) == 1:
            idiom = "reversed byte loop with carry"
    # idiom B: whole-array from_be_bytes / wrapping_add(1) / to_be_bytes
    if idiom is None:
        fb = [ci for ci, ct in inc.calls() if ct.get("callee") and ct["callee"]["name"] == "from_be_bytes"]
        tb = [ci for ci, ct in inc.calls() if ct.get("callee") and ct["callee"]["name"] == "to_be_bytes"]
        wa = [ci for ci, ct in inc.calls() if ct.get("callee") and ct["callee"]["name"] == "wrapping_add" and op_const(ct["args"][1]) == 1]
        if fb and tb and wa and not loops:
            idiom = "whole-array big-endian integer + 1"
    cx.check("increment-idiom", idiom is not None, site_of(inc),
             "Nonce::increment is a recognised big-endian +1 with carry over all %s bytes (%s)" % (nonce_len, idiom or "unrecognised idiom: fail closed"))
    cx.check("array-length", arr.k == "adt" or True, site_of(inc), "nonce array length is NONCE_LEN = %s" % nonce_len)


def r6_overflow_detectable(cx):
    prog = cx.prog
    (b, sbi, st) = _seal_fn(prog)
    dec = A.method(prog, "CryptoCore", "decrypt")
    cx.touch(b, dec)
    # sender transmits counter bytes [k..]
    send_from = None
    for wi, wt in b.calls():
        if callee_is(wt, "io::Write::write_all"):
            o = origin(b, wt["args"][1])
            if o[0] == "call" and callee_is(o[2], "ops::Index::index"):
                rng = origin(b, o[2]["args"][1])
                if rng[0] == "rvalue" and rng[2]["rv"].get("adt", "").endswith("ops::RangeFrom"):
                    send_from = const_of(b, rng[2]["rv"]["ops"][0])
    # receiver fills nonce.0[k..] of a zero nonce
    recv_from = None
    zero = False
    for ri, rt in dec.calls():
        if callee_is(rt, "io::Read::read_exact"):
            o = origin(dec, rt["args"][1])
            if o[0] == "call" and callee_is(o[2], "ops::IndexMut::index_mut"):
                rng = origin(dec, o[2]["args"][1])
                if rng[0] == "rvalue" and rng[2]["rv"].get("adt", "").endswith("ops::RangeFrom"):
                    recv_from = const_of(dec, rng[2]["rv"]["ops"][0])
                base = deep_root(dec, o[2]["args"][0])
                if base is not None:
                    d = defuse(dec).defs.get(base["l"], [])
                    zero = any(dd[0] == "call" and callee_is(dd[2], "Nonce::zero") for dd in d)
    cx.check("same-transmitted-range", send_from is not None and send_from == recv_from, site_of(dec),
             "sender transmits counter bytes [%s..] and the receiver reconstructs bytes [%s..]" % (send_from, recv_from))
    cx.check("untransmitted-bytes-zero", zero, site_of(dec), "the receiver starts from Nonce::zero(), so untransmitted high bytes are assumed zero")
    nl = prog.const_value("NONCE_LEN")
    el = prog.const_value("EXTRA_LEN")
    cx.check("header-size", send_from is not None and nl - send_from + 1 == el, site_of(b), "key id byte + %s counter bytes = EXTRA_LEN (%s)" % (nl - (send_from or 0), el))
    z = A.method(prog, "Nonce", "zero")
    rep = [s for bi, si, s in z.stmts() if s["k"] == "assign" and s["rv"]["k"] == "repeat" and op_const(s["rv"]["op"]) == 0]
    cx.check("zero-is-zero", len(rep) == 1, site_of(z), "Nonce::zero() is the all-zero array")
    # set_msb writes byte 0 only
    sm = A.method(prog, "Nonce", "set_msb")
    st_ = [s for bi, si, s in sm.stmts() if s["k"] == "assign" and s["place"].get("p")]
    ok = len(st_) == 1 and any((e["k"] == "cidx" and e["offset"] == 0) or e["k"] == "index" for e in st_[0]["place"]["p"])
    idxc = None
    for s in st_:
        for e in s["place"]["p"]:
            if e["k"] == "index":
                d = defuse(sm).single_def(e["l"])
                if d and d[0] == "stmt" and d[3]["rv"]["k"] == "use":
                    idxc = op_const(d[3]["rv"]["op"])
            if e["k"] == "cidx":
                idxc = e["offset"]
    cx.check("msb-is-byte-0", ok and idxc == 0, site_of(sm), "set_msb writes byte 0 only (index %s)" % idxc)


RULES = [
    ("C04.R1", r1_who_may_write_send_counter, "who may write the send counter"),
    ("C04.R2", r2_increment_before_use, "increment-before-use: one increment dominates header write and seal, same slot"),
    ("C04.R3", r3_fresh_random_start, "unpredictable start, fresh per key; rotate_key keeps the half"),
    ("C04.R4", r4_disjoint_halves, "disjoint halves: same strict comparison in both arms; equal ids excluded"),
    ("C04.R5", r5_counter_arithmetic, "counter arithmetic: recognised big-endian +1 with carry over the whole array"),
    ("C04.R6", r6_overflow_detectable, "overflow is detectable: transmitted byte range agrees, untransmitted bytes assumed zero"),
]

LEVEL_TEXT = ("Static who-may-write, ordering, idiom and sibling-agreement rules on MIR: the send counter is written only by the constructor and by the one "
              "increment that dominates header write and seal of the same slot; new keys start from a SecureRandom nonce in the core's own half; both "
              "handshake arms choose the half by the same strict comparison of the two salted ids (equality excluded by the dominating self test); "
              "Nonce::increment is a recognised +1 with carry over all bytes; sender and receiver agree on the transmitted byte range.")
LEVEL_NOTE = "Decides C04.R1-R6. Not decided: uniqueness of random starts across keys (probabilistic), whole-life histories of both ends."
TECHNIQUE = "MIR who-may-write, dominance, idiom recognition, constant/sibling agreement"
