"""C03 - replay window of two housekeeping ticks (DESIGN.md section 4, C03.R1-R4).

The property follows from three code-level facts by a fixed paper argument (min <= next-min <= seen+1 is an
invariant of the accept/tick transition system; a datagram accepted before tick t has a counter < next-min after t
and < min after t+1). The rules decide that the code *is* that transition system."""
from ..engine import site_of
from ..facts import op_place, op_local, op_const, AnchorError
from ..callgraph import callee_is
from ..mirutil import (internal_sweeps, root_place, op_root, deep_root, origin, defuse, calls_in, loops_of, iter_source, place_is_field,
                       success_edges, result_return_sites, dominated_by_ok)
from ..effects import summarise, term_str, ret_kind, Unsupported
from .. import anchors as A

CMP_NAMES = {"lt": ("lt", False, False), "gt": ("lt", True, False), "ge": ("lt", False, True), "le": ("lt", True, True)}


def _flat(t):
    """All leaf strings of a term."""
    if isinstance(t, tuple):
        out = []
        for x in t:
            out += _flat(x)
        return out
    return [t] if isinstance(t, str) else []


def norm_conds(conds):
    """Normalise path conditions to atoms: ('lt', a, b, bool) / ('ok', callee, bool) / ('bool', text, bool)."""
    atoms = []
    for term, val in conds:
        truth = None
        if val == 0:
            truth = False
        elif val == ("not", (0,)) or val == 1:
            truth = True
        core = term
        wrapped_result = False
        # discr(branch(map_err(X))) : 0 = Continue (ok), 1 = Break (err)
        if isinstance(core, tuple) and core[0] == "discr":
            core = core[1]
            wrapped_result = True
        changed = True
        while changed and isinstance(core, tuple) and core[0] == "app":
            changed = False
            nm = core[1]
            if nm.endswith("ops::Try::branch") or nm.endswith("Result::map_err") or nm.endswith("Result::map"):
                core = core[2]
                changed = True
        if isinstance(core, tuple) and core[0] == "app":
            fn = core[1].split("::")[-1]
            if fn in CMP_NAMES and len(core) == 4 and not wrapped_result:
                base, swap, neg = CMP_NAMES[fn]
                a, b = term_str(core[2]), term_str(core[3])
                if swap:
                    a, b = b, a
                tv = truth
                if neg and tv is not None:
                    tv = not tv
                atoms.append(("lt", a, b, tv))
                continue
            if wrapped_result:
                atoms.append(("ok", fn, val == 0))
                continue
            if fn in ("is_err", "is_ok", "is_none", "is_some"):
                inner = core[2]
                while isinstance(inner, tuple) and inner[0] in ("ref",):
                    inner = inner[1]
                ifn = inner[1].split("::")[-1] if isinstance(inner, tuple) and inner[0] == "app" else term_str(inner)
                pos = fn in ("is_ok", "is_some")
                atoms.append(("ok", ifn, (truth == pos)))
                continue
            atoms.append(("bool", fn, truth))
            continue
        atoms.append(("bool", term_str(core), truth))
    return atoms


def r1_accept_step(cx):
    prog = cx.prog
    opens = A.calls_where(prog, A.is_aead_open)
    cx.exact("open-sites", len(opens), 1, "open_in_place call sites")
    for (b, bi, t) in opens:
        cx.touch(b)
        # parameter roles by type
        names = {}
        for l in range(1, b.arg_count + 1):
            ts = b.local_ty(l).s
            if "CryptoKey" in ts:
                names[l] = "key"
            elif ts.endswith("Nonce"):
                names[l] = "nonce"
            else:
                names[l] = "data"
        cx.check("roles", sorted(names.values()) == ["data", "key", "nonce"], site_of(b), "the function opening the envelope takes (key slot, reconstructed nonce, data)")
        try:
            paths = summarise(b, names)
        except Unsupported as e:
            cx.check("summarisable", False, site_of(b), "accept step could not be summarised: %s" % e)
            continue
        got = set()
        for p in paths:
            atoms = tuple(a for a in norm_conds(p["conds"]))
            keymem = tuple(sorted((k, term_str(v)) for k, v in p["mem"].items() if k.startswith("key.")))
            got.add((atoms, keymem, ret_kind(p["ret"])))
        spec = {
            ((("lt", "nonce", "key.min_nonce", True),), (), "Err"),
            ((("lt", "nonce", "key.min_nonce", False), ("ok", "open_in_place", False)), (), "Err"),
            ((("lt", "nonce", "key.min_nonce", False), ("ok", "open_in_place", True), ("lt", "key.seen_nonce", "nonce", True)), (("key.seen_nonce", "nonce"),), "Ok"),
            ((("lt", "nonce", "key.min_nonce", False), ("ok", "open_in_place", True), ("lt", "key.seen_nonce", "nonce", False)), (), "Ok"),
        }
        # accepted alternative: seen' = max(seen, nonce) without a branch
        spec_max = {
            ((("lt", "nonce", "key.min_nonce", True),), (), "Err"),
            ((("lt", "nonce", "key.min_nonce", False), ("ok", "open_in_place", False)), (), "Err"),
            ((("lt", "nonce", "key.min_nonce", False), ("ok", "open_in_place", True)), (("key.seen_nonce", "max(key.seen_nonce, nonce)"),), "Ok"),
        }
        ok = got == spec or got == spec_max
        cx.check("accept-transition", ok, site_of(b),
                 "effect summary of the accept step equals the reference: reject if nonce < min (no store); reject if the open fails (no store); "
                 "otherwise Ok with seen' = max(seen, nonce)", detail=None if ok else "\n".join(sorted(repr(x) for x in got)))
        # R4: the nonce compared is the one handed to open_in_place
        opn = [c for p in paths for c in p["calls"] if c[0].endswith("open_in_place")]
        okn = bool(opn) and all("nonce" in _flat(c[1]) and "key.key" in _flat(c[1]) and "data" in _flat(c[1]) for c in opn)
        cx.check("same-nonce-authenticated", okn, site_of(b, bi), "the nonce compared with the window is the one given to open_in_place (with the slot's key and the data)")


def r2_tick_step(cx):
    prog = cx.prog
    fn = A.method(prog, "CryptoKey", "update_min_nonce")
    cx.touch(fn)
    try:
        paths = summarise(fn, {1: "key"})
    except Unsupported as e:
        cx.check("summarisable", False, site_of(fn), "tick step could not be summarised: %s" % e)
        return
    cx.exact("tick-paths", len(paths), 1, "paths through update_min_nonce")
    for p in paths:
        mem = {k: term_str(v) for k, v in p["mem"].items()}
        want = {"key.min_nonce": "key.next_min_nonce", "key.next_min_nonce": "increment!0(key.seen_nonce)"}
        cx.check("tick-transition", mem == want, site_of(fn),
                 "effect summary of the tick: min' = next_min, next_min' = inc(seen), seen' = seen (found %s)" % mem)
    # who else writes the window fields
    from ..mirutil import field_writes
    for f, allowed in (("min_nonce", {"update_min_nonce"}), ("next_min_nonce", {"update_min_nonce"})):
        w = field_writes(prog, "CryptoKey", f)
        fns = sorted(set(b.name for (b, bi, k, s) in w))
        cx.check("writers:" + f, set(fns) <= allowed, None, "CryptoKey.%s is written only by the tick (found %s)" % (f, fns))


def r3_tick_reaches_every_slot(cx):
    prog = cx.prog
    ces = A.method(prog, "CryptoCore", "every_second")
    upd = A.method(prog, "CryptoKey", "update_min_nonce")
    cx.touch(ces)
    ok = False
    for li in loops_of(ces):
        src = iter_source(ces, li)
        if src is not None and place_is_field(src, "CryptoCore", "keys"):
            calls = [bi for bi in li.blocks if ces.blocks[bi]["term"]["k"] == "call" and any(d == upd.did for _k, d in prog.cg.resolve(ces, ces.blocks[bi]["term"]))]
            every = False
            for nb in li.next_calls:
                oc = success_edges(ces, nb)
                every = all(nb not in ces.cfg.reachable_from_edge(e, avoid_blocks=calls) for e in oc.ok_edges) and bool(oc.ok_edges)
            ok = not li.other_exits and bool(calls) and every
    if not ok:
        # internal iteration: self.keys.iter_mut().for_each(CryptoKey::update_min_nonce), reached on every path
        fe = internal_sweeps(prog, ces, lambda r: place_is_field(r, "CryptoCore", "keys"), upd.did)
        ok = bool(fe) and not any(x in ces.cfg.exits for x in ces.cfg.reachable_from([0], avoid_blocks=fe))
    cx.check("core-sweeps-all-slots", ok, site_of(ces), "CryptoCore::every_second applies the tick to every key slot (complete sweep, no early exit)")
    pes = A.method(prog, "PeerCrypto", "every_second")
    cx.touch(pes)
    calls = [ci for ci, ct in pes.calls() if any(d == ces.did for _k, d in prog.cg.resolve(pes, ct))]
    cx.exact("peer-tick-calls", len(calls), 1, "calls of CryptoCore::every_second in PeerCrypto::every_second")
    for ci in calls:
        # under `core is Some` only, and before anything that can return
        some = set()
        from ..decision import enum_switch_edges
        for (edge, place, ty, val, is_oth) in enum_switch_edges(pes):
            if not is_oth and val == 1 and (place_is_field(root_place(pes, place), "PeerCrypto", "core") or
                                            (lambda r: r is not None and place_is_field(r, "PeerCrypto", "core"))(deep_root(pes, place))):
                some.add(edge)
        ok1 = bool(some) and any(pes.cfg.dominates(e, ci) for e in some)
        # every return is reached only after the switch on core (i.e. no early return before the tick)
        sw = [e[1] for e in some]
        ok2 = bool(sw) and all(any(pes.cfg.dominates(s, r) for s in sw) for r in pes.cfg.exits)
        # from the Some edge the tick is unavoidable
        ok3 = all(not any(x in pes.cfg.exits for x in pes.cfg.reachable_from_edge(e, avoid_blocks=[ci])) for e in some)
        cx.check("peer-tick-unconditional", ok1 and ok2 and ok3, site_of(pes, ci),
                 "PeerCrypto::every_second ticks the core whenever one exists, before anything that can return")
    ch = A.cloud_fn(prog, "crypto_housekeep")
    cx.touch(ch)
    okp = False
    for li in loops_of(ch):
        src = iter_source(ch, li)
        if src is not None and place_is_field(src, "GenericCloud", "peers"):
            calls = [bi for bi in li.blocks if ch.blocks[bi]["term"]["k"] == "call" and any(d == pes.did for _k, d in prog.cg.resolve(ch, ch.blocks[bi]["term"]))]
            # exits other than exhaustion are error propagation only
            oks = [rbi for kind, rbi, info in result_return_sites(ch) if kind == "ok"]
            bad = [src_ for (src_, dst) in li.other_exits if any(r in ch.cfg.reachable_from([dst]) for r in oks)]
            every = True
            for nb in li.next_calls:
                oc = success_edges(ch, nb)
                for e in oc.ok_edges:
                    reach = ch.cfg.reachable_from_edge(e, avoid_blocks=calls)
                    if nb in reach:
                        every = False
            okp = bool(calls) and not bad and every
    cx.check("every-peer-ticked", okp, site_of(ch), "crypto_housekeep ticks every peer (sweep over all keys of peers; early exits only by error propagation)")
    hk = A.cloud_fn(prog, "housekeep")
    hc = [ci for ci, ct in hk.calls() if any(d == ch.did for _k, d in prog.cg.resolve(hk, ct))]
    oks = [rbi for kind, rbi, info in result_return_sites(hk) if kind == "ok"]
    ok = len(hc) == 1 and bool(oks) and not any(r in hk.cfg.reachable_from([0], avoid_blocks=hc) for r in oks)
    cx.check("housekeep-ticks", ok, site_of(hk), "housekeep reaches its Ok return only through crypto_housekeep")


RULES = [
    ("C03.R1", r1_accept_step, "accept step: effect summary equals the reference transition (incl. R4 same nonce)"),
    ("C03.R2", r2_tick_step, "tick step: min' = next_min, next_min' = inc(seen)"),
    ("C03.R3", r3_tick_reaches_every_slot, "the tick reaches every slot of every peer on each housekeeping round"),
]

LEVEL_TEXT = ("Path-wise symbolic effect summaries on MIR (no execution, no solver): the function that opens the envelope has exactly the paths "
              "{nonce < min -> Err, no store; open fails -> Err, no store; open succeeds -> Ok, seen' = max(seen, nonce)} and the tick has the single "
              "effect {min' = next_min, next_min' = inc(seen)}; every slot of every peer is ticked on every housekeeping round. The two-tick replay "
              "bound then follows by the fixed paper argument in DESIGN.md.")
LEVEL_NOTE = ("Decides C03.R1-R4. Not decided: that ticks happen once per wall-clock second; node-level replay timing. Stated caveat: a socket send error in "
              "crypto_housekeep aborts the sweep (error-propagation exits are accepted).")
TECHNIQUE = "path-wise symbolic effect summaries over MIR compared with a reference transition system; loop-exit classification"
