"""C19 - address dissection of frames and packets is exact and total (DESIGN.md section 4, C19.R1-R3)."""
from ..engine import site_of
from ..facts import op_place, op_local, op_const, AnchorError
from ..callgraph import callee_is
from ..mirutil import (root_place, op_root, deep_root, origin, defuse, calls_in, forward_taint, result_return_sites,
                       success_edges, aggregates)
from ..region import dominated_by_edges
from ..totality import check_region, closure_region
from ..intervals import analyse, check_field_invariants
from ..lengths import const_of
from .. import anchors as A


def _parsers(prog):
    fp = [b for b in prog.bodies if b.path.endswith("payload::Frame as payload::Protocol>::parse")]
    pp = [b for b in prog.bodies if b.path.endswith("payload::Packet as payload::Protocol>::parse")]
    if len(fp) != 1 or len(pp) != 1:
        raise AnchorError("Frame::parse / Packet::parse not found")
    return fp[0], pp[0]


def r1_total(cx):
    prog = cx.prog
    fp, pp = _parsers(prog)
    region = closure_region(prog, [fp, pp])
    st = check_region(cx, region, "C19", [fp, pp], "dissector", allow_table=False)
    cx.floor("dissector-sites", st["sites"], 20, "panic-capable sites in the dissectors' call-graph closure")
    for ok, adt, field, b, bi, v in check_field_invariants(prog):
        if adt == "Address":
            cx.check("invariant:%s.%s:%s" % (adt, field, b.path), ok, site_of(b, bi), "Address.len <= 16 re-established (value %s)" % (v,))
    for b in (fp, pp):
        cx.check("no-loop:" + b.name + ":" + b.path.split("::")[1].split(" ")[0], not b.cfg.loops(), site_of(b), "the dissector has no loop")


def _index_sites(body):
    """(block, base operand, kind, a, b) for every constant sub-slicing in body."""
    out = []
    for bi, t in body.calls():
        if callee_is(t, "ops::Index::index", "ops::IndexMut::index_mut") and len(t["args"]) == 2:
            rng = origin(body, t["args"][1])
            if rng[0] == "rvalue" and rng[2]["rv"]["k"] == "aggregate":
                rv = rng[2]["rv"]
                vals = [const_of(body, o) for o in rv["ops"]]
                out.append((bi, t, rv.get("adt", "").split("::")[-1], vals))
    return out


def r2_offsets_fit_guards(cx):
    prog = cx.prog
    fp, pp = _parsers(prog)
    cx.touch(fp, pp)
    # Packet::parse: version nibble -> (minimum length, [(offset, size)...])
    layout = {4: (20, [(12, 4), (16, 4)]), 6: (40, [(8, 16), (24, 16)])}
    rff = A.method(prog, "Address", "read_from_fixed")
    an = analyse(pp)
    # switch on version = data[0] >> 4
    vers_edges = {}
    for sb in pp.cfg.reach:
        tt = pp.blocks[sb]["term"]
        if tt["k"] == "switch" and set(tt["values"]) >= {4, 6}:
            for k, v in enumerate(tt["values"]):
                vers_edges[v] = ("e", sb, k)
            l = op_local(tt["discr"])
            okshift = False
            # every definition of the switched value is (a copy of) `<first input byte> >> 4`
            seen_l = set()
            work = [l] if l is not None else []
            shifts = 0
            other = 0
            while work:
                x = work.pop()
                if x in seen_l:
                    continue
                seen_l.add(x)
                for d in defuse(pp).defs.get(x, []):
                    if d[0] == "stmt" and d[3]["rv"]["k"] == "binop" and d[3]["rv"]["op"] == "Shr" and op_const(d[3]["rv"]["b"]) == 4:
                        shifts += 1
                    elif d[0] == "call" and callee_is(d[2], "ops::Shr::shr") and len(d[2]["args"]) == 2 and op_const(d[2]["args"][1]) == 4:
                        shifts += 1
                    elif d[0] == "stmt" and d[3]["rv"]["k"] == "use" and op_local(d[3]["rv"]["op"]) is not None:
                        work.append(op_local(d[3]["rv"]["op"]))
                    else:
                        other += 1
            okshift = shifts >= 1 and other == 0
            cx.check("version-nibble", okshift, site_of(pp, sb), "the family is selected by the high nibble of the first byte (data[0] >> 4)")
    if not vers_edges:
        # if / else-if chain: version == 4, version == 6
        from ..region import compare_switches
        for (sb, op, a, b_, te, fe) in compare_switches(pp):
            if op != "Eq" or len(te) != 1:
                continue
            for x, c in ((a, op_const(b_)), (b_, op_const(a))):
                l = op_local(x) if op_place(x) is not None else None
                if c not in (4, 6, 5, 7, 3) or l is None:
                    continue
                seen_l, work, shifts, other = set(), [l], 0, 0
                while work:
                    y = work.pop()
                    if y in seen_l:
                        continue
                    seen_l.add(y)
                    for d in defuse(pp).defs.get(y, []):
                        if d[0] == "stmt" and d[3]["rv"]["k"] == "binop" and d[3]["rv"]["op"] == "Shr" and op_const(d[3]["rv"]["b"]) == 4:
                            shifts += 1
                        elif d[0] == "call" and callee_is(d[2], "ops::Shr::shr") and len(d[2]["args"]) == 2 and op_const(d[2]["args"][1]) == 4:
                            shifts += 1
                        elif d[0] == "stmt" and d[3]["rv"]["k"] == "use" and op_local(d[3]["rv"]["op"]) is not None:
                            work.append(op_local(d[3]["rv"]["op"]))
                        else:
                            other += 1
                if shifts >= 1 and other == 0:
                    vers_edges[c] = list(te)[0]
                    cx.check("version-nibble", True, site_of(pp, sb), "the family is selected by the high nibble of the first byte (data[0] >> 4)")
    cx.check("families", set(vers_edges) == {4, 6}, site_of(pp), "exactly the versions 4 and 6 are dissected (found %s)" % sorted(vers_edges))
    calls = [(ci, ct) for ci, ct in pp.calls() if any(d == rff.did for _k, d in prog.cg.resolve(pp, ct))]
    for ver, (minlen, fields) in sorted(layout.items()):
        if ver not in vers_edges:
            continue
        e = vers_edges[ver]
        mine = [(ci, ct) for ci, ct in calls if pp.cfg.dominates(e, ci)]
        got = []
        for ci, ct in mine:
            size = const_of(pp, ct["args"][1])
            o = origin(pp, ct["args"][0])
            off = None
            if o[0] == "call" and callee_is(o[2], "ops::Index::index"):
                rng = origin(pp, o[2]["args"][1])
                if rng[0] == "rvalue" and rng[2]["rv"].get("adt", "").endswith("ops::RangeFrom"):
                    off = const_of(pp, rng[2]["rv"]["ops"][0])
                base = deep_root(pp, o[2]["args"][0])
                cx.check("reads-input:v%d" % ver, base is not None and base["l"] == 1, site_of(pp, ci), "the address is read from the input slice")
            got.append((off, size))
            # the length guard: len(data) >= offset + size at the call (A9)
            st = an.state_at(ci)
            ln = an.len_itv(st, {"k": "copy", "place": {"l": 1}}) if st is not None else (0, 0)
            if off is not None and size is not None:
                # the sub-slice data[off..] needs len >= off; a short remainder is rejected by read_from_fixed itself
                cx.check("guarded:v%d:+%d" % (ver, off), ln[0] >= off, site_of(pp, ci),
                         "read of %d bytes at offset %d is behind a length test: len >= %s (header minimum %d; a remainder shorter than %d bytes is an Err of the reader)" % (size, off, ln[0], minlen, size))
                if ln[0] < minlen:
                    cx.note("C19.R2: the length test before the IPv%d reads guarantees only %s bytes (header minimum %d)" % (ver, ln[0], minlen))
        # src before dst: source address first in the returned pair
        cx.check("layout:v%d" % ver, got == fields, site_of(pp), "IPv%d: source/destination at (offset, size) %s as in the header layout (found %s)" % (ver, fields, got))
    # returned pair is (src, dst) in call order
    for kind, rbi, info in result_return_sites(pp):
        if kind == "ok":
            o = origin(pp, info["rv"]["ops"][0])
            if o[0] == "rvalue" and o[2]["rv"].get("agg") == "tuple":
                pass
    # Frame::parse: dst(6) src(6) ethertype(2) [tag(2)] via read_exact on a cursor over the input
    reads = [(ci, ct) for ci, ct in fp.calls() if callee_is(ct, "io::Read::read_exact")]
    reads += [(ci, ct) for cb in prog.closures_of(fp) for ci, ct in cb.calls() if callee_is(ct, "io::Read::read_exact")]
    cx.exact("frame-reads", len(reads), 4, "read_exact calls of the Ethernet dissector (dst, src, ethertype, tag)")
    lens = []
    from ..lengths import static_len
    for b in [fp] + prog.closures_of(fp):
        for ci, ct in b.calls():
            if callee_is(ct, "io::Read::read_exact"):
                lens.append(static_len(b, ct["args"][1]))
    cx.check("frame-read-sizes", sorted(x for x in lens if x is not None) == [2, 2, 6, 6], site_of(fp), "the reads take 6 + 6 + 2 (+ 2) bytes (found %s)" % lens)
    # cursor is over the input parameter
    cur = [(ci, ct) for ci, ct in fp.calls() if callee_is(ct, "io::Cursor::new")]
    ok = len(cur) == 1 and (lambda r: r is not None and r["l"] == 1)(deep_root(fp, cur[0][1]["args"][0]))
    cx.check("frame-cursor-over-input", ok, site_of(fp), "the Ethernet dissector reads through one cursor over its input")
    from .c13 import tag_masked_before_use
    tag_masked_before_use(cx, "vlan")


def r3_bytes_from_input_only(cx):
    prog = cx.prog
    fp, pp = _parsers(prog)
    rff = A.method(prog, "Address", "read_from_fixed")
    cx.touch(rff)
    # read_from_fixed: the data array is zero-initialised and filled only by read_exact from the reader parameter
    ags = [(b, bi, s) for (b, bi, s) in aggregates(prog, "Address") if b.did == rff.did]
    cx.exact("address-ctor-in-read_from_fixed", len(ags), 1, "Address constructions in read_from_fixed")
    for (b, bi, s) in ags:
        rv = s["rv"]
        d = rv["ops"][rv["fields"].index("data")]
        r = op_root(b, d)
        defs = defuse(b).defs.get(r["l"], []) if r is not None else []
        zero = [x for x in defs if x[0] == "stmt" and x[3]["rv"]["k"] == "repeat" and op_const(x[3]["rv"]["op"]) == 0]
        cx.check("zero-initialised", len(defs) == 1 and len(zero) == 1, site_of(b, span=s["span"]), "the address bytes start as zeros")
        writers = []
        for ci, ct in b.calls():
            for a in ct["args"]:
                rr = deep_root(b, a)
                p = op_place(a)
                if rr is not None and r is not None and rr["l"] == r["l"] and p is not None and b.place_ty(p).k == "ref" and b.place_ty(p).d.get("mut"):
                    if not callee_is(ct, "ops::IndexMut::index_mut"):
                        writers.append(ct["callee"]["path"])
        cx.check("filled-by-reader-only", writers == ["std::io::Read::read_exact"], site_of(b), "the only writer of the address bytes is read_exact on the reader (found %s)" % writers)
        ln = rv["ops"][rv["fields"].index("len")]
        lr = op_root(b, ln)
        cx.check("len-is-parameter", lr is not None and lr["l"] == 2, site_of(b, span=s["span"]), "the address length is the requested length")
    # Frame::parse: src/dst arrays are zero-initialised; writers are read_exact, copy_within, copy_from_slice (from src), and the mask
    ags = [(b, bi, s) for (b, bi, s) in aggregates(prog, "Address") if b.did == fp.did]
    cx.floor("address-ctor-in-frame", len(ags), 4, "Address constructions in Frame::parse")
    arrays = set()
    for (b, bi, s) in ags:
        rv = s["rv"]
        r = op_root(b, rv["ops"][rv["fields"].index("data")])
        if r is not None:
            arrays.add(r["l"])
    cx.check("two-arrays", len(arrays) == 2, site_of(fp), "addresses are built from two local arrays (src, dst)")
    allowed = ("std::io::Read::read_exact", "core::slice::<impl [T]>::copy_within", "core::slice::<impl [T]>::copy_from_slice")
    bad = []
    for b in [fp] + prog.closures_of(fp):
        for ci, ct in b.calls():
            for a in ct["args"]:
                p = op_place(a)
                if p is None or not (b.place_ty(p).k == "ref" and b.place_ty(p).d.get("mut")):
                    continue
                rr = deep_root(b, a)
                if rr is None:
                    continue
                is_arr = (b.did == fp.did and rr["l"] in arrays) or (b.did != fp.did)
                if is_arr and not callee_is(ct, "ops::IndexMut::index_mut", "io::Cursor::new") and ct["callee"]["path"] not in allowed:
                    if b.place_ty(p).deref().k in ("array", "slice"):
                        bad.append(ct["callee"]["path"])
    cx.check("frame-writers", not bad, site_of(fp), "the address arrays are written only by read_exact / copy_within / copy_from_slice (other: %s)" % bad)
    for arr in sorted(arrays):
        defs = defuse(fp).defs.get(arr, [])
        zero = [x for x in defs if x[0] == "stmt" and x[3]["rv"]["k"] == "repeat" and op_const(x[3]["rv"]["op"]) == 0]
        cx.check("frame-zero-init:_%d" % arr, len(defs) == 1 and len(zero) == 1, site_of(fp), "address array is zero-initialised once")


def r4_address_is_the_bytes_read(cx):
    """The dissected address is the bytes at the standard position with the standard length: Address::read_from_fixed
    returns Address { data, len } with `len` its own parameter and `data` the buffer it read into - no
    canonicalisation, folding or re-interpretation afterwards (an IPv4-mapped IPv6 address stays 16 bytes)."""
    prog = cx.prog
    rff = A.method(prog, "Address", "read_from_fixed")
    cx.touch(rff)
    oks = [(bi, info) for kind, bi, info in result_return_sites(rff) if kind == "ok"]
    cx.floor("ok-returns", len(oks), 1, "Ok(..) return sites of read_from_fixed")
    reads = [ci for ci, ct in rff.calls() if callee_is(ct, "io::Read::read_exact")]
    for bi, info in oks:
        o = origin(rff, info["rv"]["ops"][0])
        ok = False
        why = "the returned value is not a plain Address { data, len } (%s)" % o[0]
        if o[0] == "rvalue" and o[2]["rv"].get("agg") == "adt" and o[2]["rv"].get("adt", "").endswith("types::Address"):
            rv = o[2]["rv"]
            lop = rv["ops"][rv["fields"].index("len")]
            dop = rv["ops"][rv["fields"].index("data")]
            lr = op_root(rff, lop) if op_place(lop) is not None else None
            dr = op_root(rff, dop) if op_place(dop) is not None else None
            buf_ok = False
            for ci in reads:
                r2 = deep_root(rff, rff.blocks[ci]["term"]["args"][1])
                if r2 is not None and dr is not None and r2["l"] == dr["l"]:
                    buf_ok = True
            ok = lr is not None and lr["l"] == 2 and not lr.get("p") and buf_ok
            why = "Address { data: <buffer filled by read_exact>, len: <parameter> }"
        cx.check("returns-bytes-as-read", ok, site_of(rff, bi), "read_from_fixed returns " + why)


RULES = [
    ("C19.R1", r1_total, "totality of Frame::parse / Packet::parse: every panic site proved by interval analysis (no table)"),
    ("C19.R2", r2_offsets_fit_guards, "offsets and sizes equal the header layouts and fit the dominating length tests"),
    ("C19.R3", r3_bytes_from_input_only, "address bytes come from the input and zero initialisers only"),
    ("C19.R4", r4_address_is_the_bytes_read, "the dissected address is the bytes read, with the length asked for (no canonicalisation)"),
]

LEVEL_TEXT = ("Totality and layout rules on MIR: every panic-capable construct reachable from the two dissectors is proved unable to fire by the "
              "interval analysis alone (no reviewed exceptions), for every input length and content; the constant offsets/sizes of all reads equal the "
              "IPv4/IPv6/Ethernet header layouts and lie inside the dominating length tests; address bytes have only the reader and zero "
              "initialisers as sources."
              " Address::read_from_fixed returns the bytes read with the length asked for, nothing derived.")
LEVEL_NOTE = "Decides C19.R1-R3. The comparison with an independent reference dissector over values is not performed (value clause); the VLAN-0 fold is charged to C13."
TECHNIQUE = "interval abstract interpretation over MIR (totality), constant layout extraction, who-may-write"
