"""C17 - beacons: total extraction, lossy text codec repaired (DESIGN.md section 4, C17.R1-R2). Partial."""
from ..engine import site_of
from ..facts import op_place, op_local, op_const, AnchorError
from ..callgraph import callee_is
from ..mirutil import loops_of, success_edges, origin, deep_root, root_place, forward_taint
from ..totality import check_region, closure_region
from ..lossy import decode_sites, check_site
from .. import anchors as A


def _decode(prog):
    hits = [b for b in prog.bodies if b.path == "beacon::BeaconSerializer::<TS>::decode"]
    if len(hits) != 1:
        raise AnchorError("BeaconSerializer::decode not found")
    return hits[0]


def r1_extraction_total(cx):
    prog = cx.prog
    dec = _decode(prog)
    region = closure_region(prog, [dec])
    st = check_region(cx, region, "C17", [dec], "beacon")
    cx.floor("beacon-sites", st["sites"], 50, "panic-capable sites in the call-graph closure of BeaconSerializer::decode")
    # the text scan advances on every iteration: pos is re-assigned from start_pos = pos + found + len(begin)
    scan = [li for li in loops_of(dec) if any(dec.blocks[bi]["term"]["k"] == "call" and callee_is(dec.blocks[bi]["term"], "str::<impl str>::find") for bi in li.blocks)]
    cx.exact("scan-loops", len(scan), 1, "scan loops in decode")
    for li in scan:
        finds = [bi for bi in li.blocks if dec.blocks[bi]["term"]["k"] == "call" and callee_is(dec.blocks[bi]["term"], "str::<impl str>::find")]
        # every cycle passes a len(begin) addition: start_pos = pos + begin.len() feeds the next pos
        lens = [bi for bi in li.blocks if dec.blocks[bi]["term"]["k"] == "call" and callee_is(dec.blocks[bi]["term"], "string::String::len", "str::<impl str>::len")]
        ok = False
        if lens:
            outside = [x for x in dec.cfg.reach if x not in li.blocks]
            reach = dec.cfg.reachable_from([s for s in dec.cfg.succ.get(li.header, []) if s in li.blocks], avoid_blocks=lens + outside)
            ok = li.header not in reach
        cx.check("scan-advances", ok, site_of(dec, li.header), "every cycle of the marker scan moves the position past a begin marker (adds its length)")
        # begin markers are non-empty: [0..5] of the marker text
    for name in ("begin", "end"):
        fn = [b for b in prog.bodies if b.path == "beacon::BeaconSerializer::<TS>::" + name]
        if len(fn) != 1:
            raise AnchorError(name)
        fn = fn[0]
        idx = [(bi, t) for bi, t in fn.calls() if callee_is(t, "ops::Index::index")]
        okm = False
        for bi, t in idx:
            r = origin(fn, t["args"][1])
            if r[0] == "rvalue" and r[2]["rv"].get("adt", "").endswith("ops::Range"):
                a, b = [op_const(o) for o in r[2]["rv"]["ops"]]
                okm = a == 0 and b == 5
        cx.check("marker-length:" + name, okm, site_of(fn), "the %s marker is the first five characters of its keystream text" % name)


def r2_lossy_codec_repaired(cx):
    prog = cx.prog
    sites = [(b, bi, t) for (b, bi, t) in decode_sites(prog) if b.file == "src/beacon.rs"]
    cx.floor("beacon-decode-sites", len(sites), 1, "from_base62 call sites in beacon.rs")
    n = 0
    for (b, bi, t) in sites:
        cx.touch(b)
        n += check_site(cx, b, bi, t, "beacon") or 0
    cx.floor("beacon-consumers", n, 1, "positional consumers of decoded beacon bytes")


def r3_age_window_is_modular(cx):
    """The hour stamp is a 16-bit counter (now / 3600 & 0xffff) that wraps: 'too old or too far in the future' must
    be decided in modular arithmetic, by comparing the wrapped differences in both directions with the limit.
    Idiom rule: two wrapping subtractions of (now, then) with swapped operands, each compared with the limit."""
    prog = cx.prog
    from ..mirutil import forward_taint
    fns = [b for b in prog.bodies if b.file == "src/beacon.rs" and b.kind != "closure" and
           any(callee_is(t, "BeaconSerializer::now_hour_16") for _bi, t in b.calls()) and any(callee_is(t, "util::Encoder::read_u16") for _bi, t in b.calls())]
    cx.exact("age-check-functions", len(fns), 1, "functions comparing the beacon's hour stamp with the current one")
    for b in fns:
        cx.touch(b)
        now_l = [t["dest"]["l"] for _bi, t in b.calls() if callee_is(t, "BeaconSerializer::now_hour_16")]
        t_now = forward_taint(b, seed_locals=now_l, mut_args=False)
        subs = []
        for ci, ct in b.calls():
            c = ct.get("callee") or {}
            is_wsub = (c.get("name") == "sub" and "Wrapping" in c.get("full", "")) or c.get("name") == "wrapping_sub"
            if is_wsub and len(ct["args"]) == 2:
                a0 = root_place(b, op_place(ct["args"][0]))["l"] if op_place(ct["args"][0]) else None
                a1 = root_place(b, op_place(ct["args"][1]))["l"] if op_place(ct["args"][1]) else None
                subs.append((ci, a0 in t_now, a1 in t_now))
        fwd = [x for x in subs if x[1] and not x[2]]
        bwd = [x for x in subs if x[2] and not x[1]]
        cx.check("both-directions-modular", len(fwd) >= 1 and len(bwd) >= 1, site_of(b),
                 "the age test subtracts the two 16-bit hour stamps with wrap-around in both directions (now - then: %d, then - now: %d)" % (len(fwd), len(bwd)))
        # non-modular distance functions on the stamps are rejected
        bad = [ci for ci, ct in b.calls() if (ct.get("callee") or {}).get("name") in ("abs_diff", "checked_sub", "saturating_sub", "abs") and
               any(op_place(a) is not None and root_place(b, op_place(a))["l"] in t_now for a in ct["args"])]
        cx.check("no-linear-distance", not bad, site_of(b, bad[0]) if bad else site_of(b), "no non-modular distance (abs_diff / saturating_sub) is taken of the hour stamps")
    # the stamp itself is 16 bits of hours
    nh = [b for b in prog.bodies if b.path.endswith("BeaconSerializer::<TS>::now_hour_16")]
    if len(nh) == 1:
        b = nh[0]
        divs = [op_const(s["rv"]["b"]) for bi, si, s in b.stmts() if s["k"] == "assign" and s["rv"]["k"] == "binop" and s["rv"]["op"] == "Div"]
        masks = [op_const(s["rv"]["b"]) for bi, si, s in b.stmts() if s["k"] == "assign" and s["rv"]["k"] == "binop" and s["rv"]["op"] == "BitAnd" and op_const(s["rv"]["b"]) is not None]
        cx.check("stamp-is-hours-mod-65536", divs == [3600] and masks == [0xffff], site_of(b), "the stamp is (now / 3600) & 0xffff (divisors %s, masks %s)" % (divs, masks))


def r4_text_codec_buffer(cx):
    """The base-62 text of l bytes has at most ceil(l * 8 / log2(62)) digits; `to_base62` writes one digit per
    position of a work buffer allocated up front (`buf[buflen] = d` in base62_add_mult_16, no growth).  The
    reviewed table discharges those index sites *because* the buffer is large enough - this rule checks that
    premise: the allocation's length, read as an arithmetic term over the input length, is compared with the
    digit count for every input length up to 65535 (the largest datagram / beacon body) and asymptotically."""
    import math
    from ..arith import term_of, evaluate, show, leaves
    prog = cx.prog
    enc = prog.body("util::to_base62")
    cx.touch(enc)
    allocs = [(bi, t) for bi, t in enc.calls() if callee_is(t, "vec::from_elem")]
    cx.exact("work-buffer-allocations", len(allocs), 1, "vec![0; n] allocations in to_base62")
    # no later growth of the work buffer: the helper indexes it, it is never pushed to / resized
    grow = [bi for bi, t in enc.calls() if callee_is(t, "vec::Vec::push", "vec::Vec::resize", "vec::Vec::extend_from_slice", "vec::Vec::reserve")]
    for bi, t in allocs:
        term = term_of(enc, t["args"][1])
        opaque = [x for x in leaves(term) if x[0] == "leaf"]
        lens = sorted({x[1] for x in leaves(term) if x[0] == "len"})
        if opaque or len(lens) != 1:
            cx.check("work-buffer-term", False, site_of(enc, bi), "the work buffer's length %s is not an arithmetic term over the input length" % show(term))
            continue
        cx.check("work-buffer-term", True, site_of(enc, bi), "work buffer length = %s" % show(term), how="arith")
        ratio = 8 / math.log2(62)

        def digits(l):
            # exact: number of base-62 digits of 256**l - 1
            n = (1 << (8 * l)) - 1
            c = 0
            while n:
                n //= 62
                c += 1
            return c
        bad = None
        for l in list(range(1, 2049)) + [4096, 8191, 16384, 32768, 65535]:
            v = evaluate(term, {lens[0]: l})
            if v is None or v < digits(l):
                bad = (l, v, digits(l))
                break
        big = 10 ** 9
        vb = evaluate(term, {lens[0]: big})
        if bad is None and (vb is None or vb < math.ceil(big * ratio)):
            bad = (big, vb, math.ceil(big * ratio))
        cx.check("work-buffer-holds-all-digits", bad is None and not grow, site_of(enc, bi),
                 "the work buffer holds every digit of an l-byte input (needs ceil(l*8/log2 62) ~ 1.344 l)" +
                 ("" if bad is None else ": for l = %d it has %s positions but %d digits can be produced" % bad), how="arith")


def r5_family_split_by_variant(cx):
    """"Any list is recovered exactly": the encoder sorts the addresses into the IPv4 and the IPv6 section by the
    variant of the SocketAddr alone and stores the matched value itself - an address is never moved to the other
    family or rebuilt (an IPv4-mapped IPv6 address written as IPv4 decodes as a different address).  Rule: in
    peerlist_encode every push into one of the two section lists pushes the payload of the matched variant, and the
    only branch deciding it inside the loop is the switch on that variant."""
    from ..decision import enum_switch_edges
    prog = cx.prog
    enc = [b for b in prog.bodies if b.path == "beacon::BeaconSerializer::<TS>::peerlist_encode"]
    if len(enc) != 1:
        raise AnchorError("peerlist_encode not found")
    enc = enc[0]
    cx.touch(enc)
    var_edges = {}
    for (edge, place, ty, val, is_oth) in enum_switch_edges(enc):
        if ty.k == "adt" and ty.d["path"].endswith("net::SocketAddr") and not is_oth:
            var_edges[edge] = val
    cx.floor("variant-edges", len(var_edges), 2, "switch edges on the SocketAddr variant in peerlist_encode")
    pushes = []
    for ci, ct in enc.calls():
        if callee_is(ct, "smallvec::SmallVec::push", "vec::Vec::push") and len(ct["args"]) == 2:
            ety = enc.place_ty(op_place(ct["args"][1])) if op_place(ct["args"][1]) is not None else None
            if ety is not None and ety.k == "adt" and ety.d["path"].endswith(("net::SocketAddrV4", "net::SocketAddrV6")):
                pushes.append((ci, ct, "V4" if ety.d["path"].endswith("V4") else "V6"))
    cx.exact("section-pushes", len(pushes), 2, "pushes into the IPv4 / IPv6 section lists")
    for ci, ct, fam in pushes:
        r = deep_root(enc, ct["args"][1])
        from_payload = r is not None and any(e["k"] == "downcast" and e.get("v") == fam for e in r.get("p", []))
        cx.check("pushes-matched-value:" + fam, from_payload, site_of(enc, ci), "the %s section receives the payload of SocketAddr::%s unchanged" % (fam, fam))
        ctl = [e for e in enc.cfg.controlling_edges(ci) if enc.blocks[e[1]]["term"]["k"] == "switch"]
        loops = [li for li in loops_of(enc) if ci in li.blocks]
        inloop = [e for e in ctl if loops and e[1] in min(loops, key=lambda l: len(l.blocks)).blocks]
        exits = set()
        for li in loops:
            exits |= {src for (src, _dst) in li.exhaust_exits}
        foreign = [e for e in inloop if e not in var_edges and e[1] not in exits]
        cx.check("split-by-variant-only:" + fam, not foreign, site_of(enc, ci), "inside the loop only the variant of the address decides the section (no further condition)")


def r6_scan_resumes_inside(cx):
    """Found inside arbitrary text: after a candidate beacon the scan resumes at a position that does not depend on where the end
    marker was found (today: right behind the begin marker). A resume position computed from the end-marker hit skips text - a
    second beacon that starts inside the skipped stretch (markers sharing a character, a stray begin marker before the real one,
    a beacon quoted inside another) is lost."""
    prog = cx.prog
    dec = _decode(prog)
    cx.touch(dec)
    finds = [(bi, t) for bi, t in dec.calls() if callee_is(t, "str::<impl str>::find")]
    cx.exact("marker-finds", len(finds), 2, "marker searches in decode (begin, end)")
    if len(finds) != 2:
        return
    (b1, t1), (b2, t2) = finds
    if dec.cfg.dominates(b2, b1) and not dec.cfg.dominates(b1, b2):
        (b1, t1), (b2, t2) = (b2, t2), (b1, t1)
    cx.check("begin-search-first", dec.cfg.dominates(b1, b2), site_of(dec, b1), "the begin-marker search dominates the end-marker search")

    def range_start(t):
        o = origin(dec, t["args"][0])
        # &data[pos..]  =  Index::index(&data, RangeFrom { start })
        hops = 0
        while o[0] == "call" and hops < 4 and not callee_is(o[2], "ops::Index::index", "Index<I>>::index"):
            o = origin(dec, o[2]["args"][0]) if o[2].get("args") else ("none",)
            hops += 1
        if o[0] != "call" or len(o[2]["args"]) != 2:
            return None
        r = origin(dec, o[2]["args"][1])
        if r[0] == "rvalue" and r[2]["rv"]["k"] == "aggregate" and r[2]["rv"].get("adt", "").endswith("ops::RangeFrom") and r[2]["rv"]["ops"]:
            q = op_place(r[2]["rv"]["ops"][0])
            if q is None:
                return None
            oo = origin(dec, r[2]["rv"]["ops"][0])
            return oo[1]["l"] if oo[0] == "place" else root_place(dec, q)["l"]
        return None

    start = range_start(t1)
    cx.check("scan-position-found", start is not None, site_of(dec, b1), "the begin-marker search runs over data[pos..] (open-ended range from the scan position)")
    if start is None:
        return
    d2 = t2["dest"]["l"] if isinstance(t2.get("dest"), dict) else None
    if d2 is None:
        raise AnchorError("destination of the end-marker search")
    tainted = forward_taint(dec, seed_locals=[d2], mut_args=False)
    cx.check("resume-independent-of-end-marker", start not in tainted, site_of(dec, b2),
             "the position the next begin-marker search starts from is not computed from the end-marker hit (no text is skipped)")


RULES = [
    ("C17.R1", r1_extraction_total, "beacon extraction is total: panic sites proved or reviewed; the scan advances"),
    ("C17.R2", r2_lossy_codec_repaired, "decoded beacon bytes are length-restored before positional use (base-62 drops leading zero bytes)"),
    ("C17.R3", r3_age_window_is_modular, "the age window is decided in modular 16-bit arithmetic in both directions"),
    ("C17.R5", r5_family_split_by_variant, "the encoder sorts addresses into the IPv4 / IPv6 sections by their variant alone and stores them unchanged"),
    ("C17.R6", r6_scan_resumes_inside, "the marker scan resumes at a position independent of the end-marker hit: no stretch of the text is skipped"),
    ("C17.R4", r4_text_codec_buffer, "the text codec's work buffer holds every digit of the encoded body (premise of the reviewed index sites)"),
]

LEVEL_TEXT = ("Totality enumeration and a source-to-sink rule on MIR: every panic-capable construct reachable from BeaconSerializer::decode is enumerated; the "
              "ones the interval analysis and the window/prefix guard models cannot prove are matched by key and count against a reviewed table (the "
              "positional reads of peerlist_decode rest on its structure test, a relational argument intervals cannot carry); the marker scan advances by "
              "the marker length in every cycle; the bytes decoded by the big-number text codec pass a length-restoring step before positional use."
              " The base-62 work buffer holds every digit for every input length (term comparison); the encoder sorts addresses into sections by variant alone;"
              " the position the marker scan resumes from has no data dependence on the end-marker hit (no stretch of the text is skipped).")
LEVEL_NOTE = ("Partial, and weaker than C19/C16 for R1: 2/3 of the sites rest on reviewed table entries. Not decided: round trip over all address lists/times/"
              "passwords, the age window arithmetic, marker derivation.")
TECHNIQUE = "MIR panic-site enumeration + interval analysis + reviewed table; must-pass-through (restoring step) path rule; forward may-flow (taint) rule on the scan position"
