"""C02 - payload travels sealed (DESIGN.md section 4, C02.R1-R6)."""
from ..engine import site_of
from ..facts import op_place, op_local, op_const, AnchorError
from ..callgraph import callee_is
from ..mirutil import (success_edges, dominated_by_ok, result_return_sites, root_place, op_root, deep_root,
                       place_is_field, calls_on_field, aggregates, origin, defuse, calls_in, field_writes)
from ..region import (switch_edges_on_variant, dominated_by_edges, bool_place_edges, folded_dead_edges)
from .. import anchors as A


def _calls_to(prog, body, target):
    return [bi for bi, t in body.calls() if any(d == target.did for _k, d in prog.cg.resolve(body, t))]


def _same_root(b, op1, op2):
    r1 = deep_root(b, op1)
    r2 = deep_root(b, op2)
    return r1 is not None and r2 is not None and r1["l"] == r2["l"]


def ok_returns_behind(prog, body, call_blocks, fold=None):
    """Every Ok-capable return of body is dominated by the success edge of one of call_blocks or is
    the pass-through of one of them; computed with the given flag folding (A6)."""
    dead = folded_dead_edges(body, fold) if fold else set()
    live = body.cfg.reachable_from([0], avoid_edges=dead)
    ok_edges = set()
    for ci in call_blocks:
        ok_edges |= success_edges(body, ci).ok_edges
    n = 0
    for kind, bi, info in result_return_sites(body):
        if bi not in live or kind in ("err", "residual"):
            continue
        n += 1
        if kind == "call" and bi in call_blocks:
            continue
        if kind == "move":
            src = op_local(info["rv"]["op"])
            d = defuse(body).single_def(src) if src is not None else None
            if d is not None and d[0] == "call" and d[1] in call_blocks:
                continue
        if ok_edges and bi not in body.cfg.reachable_from([0], avoid_edges=ok_edges | dead):
            continue
        return False, n
    return n > 0, n


def r1_every_wire_write_sealed(cx):
    prog = cx.prog
    sends = A.calls_where(prog, A.is_socket_send)
    cx.floor("socket-send-sites", len(sends), 3, "Socket::send call sites")
    send_message = A.method(prog, "PeerCrypto", "send_message")
    encrypt_message = A.method(prog, "PeerCrypto", "encrypt_message")
    core_encrypt = A.method(prog, "CryptoCore", "encrypt")
    initialize = A.method(prog, "PeerCrypto", "initialize")
    every_second = A.method(prog, "PeerCrypto", "every_second")
    send_to = A.cloud_fn(prog, "send_to")
    allowed = {"broadcast_msg", "send_to", "send_stats_to_statsd"}
    for (b, bi, t) in sends:
        cx.touch(b)
        owner = b
        while owner.kind == "closure" and owner.parent_body is None:
            par = prog.by_did.get(owner.d["parent"])
            if par is None:
                break
            owner = par
        name = owner.name
        if name not in allowed:
            cx.check("send-site:" + b.path, False, site_of(b, bi), "Socket::send in a function that is not a reviewed sender")
            continue
        if name == "broadcast_msg":
            ok = False
            for ci in _calls_to(prog, b, send_message):
                ct = b.blocks[ci]["term"]
                if dominated_by_ok(b, ci, bi) and _same_root(b, ct["args"][2], t["args"][1]):
                    ok = True
            cx.check("send-site:broadcast_msg", ok, site_of(b, bi),
                     "the buffer sent is the one on which PeerCrypto::send_message succeeded (dominating success edge)")
        elif name == "send_stats_to_statsd":
            # table exception: statsd counters to the operator's own server; the bytes come from StatsdMsg::build
            o = deep_root(b, t["args"][1])
            src_ok = False
            if o is not None:
                d = defuse(b).single_def(o["l"])
                src_ok = d is not None and d[0] == "call" and callee_is(d[2], "StatsdMsg::build")
            cx.check("send-site:send_stats_to_statsd", src_ok, site_of(b, bi),
                     "statsd datagram carries only the StatsdMsg text (table exception: operator's own statsd server, no payload)", how="table")
        else:
            cx.check("send-site:send_to", _same_root(b, t["args"][1], {"k": "copy", "place": {"l": 3}}), site_of(b, bi),
                     "send_to sends exactly its msg parameter")
    # callers of send_to
    callers = [(prog.by_did[c], bb) for (c, bb, kind) in prog.cg.callers.get(send_to.did, []) if kind == "direct"]
    cx.floor("send_to-callers", len(callers), 6, "call sites of send_to")
    for (cb, bb) in callers:
        cx.touch(cb)
        t = cb.blocks[bb]["term"]
        msg = t["args"][2]
        n = cb.name
        ok = False
        why = ""
        if n == "send_msg":
            for ci in _calls_to(prog, cb, send_message):
                ct = cb.blocks[ci]["term"]
                if dominated_by_ok(cb, ci, bb) and _same_root(cb, ct["args"][2], msg):
                    ok = True
            why = "send_msg seals through PeerCrypto::send_message before send_to"
        elif n == "connect_sock":
            for ci in _calls_to(prog, cb, initialize):
                ct = cb.blocks[ci]["term"]
                if dominated_by_ok(cb, ci, bb) and _same_root(cb, ct["args"][1], msg):
                    ok = True
            why = "connect_sock sends the handshake ping produced by initialize()"
        elif n == "crypto_housekeep":
            edges = switch_edges_on_variant(prog, cb, "MessageResult", ["Reply"])
            if dominated_by_edges(cb, edges, bb):
                for ci in _calls_to(prog, cb, every_second):
                    ct = cb.blocks[ci]["term"]
                    if cb.cfg.dominates(ci, bb) and _same_root(cb, ct["args"][1], msg):
                        ok = True
            why = "housekeeping sends only the Reply buffer filled by PeerCrypto::every_second"
        elif n == "handle_message":
            edges = switch_edges_on_variant(prog, cb, "MessageResult", ["Reply", "InitializedWithReply"])
            ok = dominated_by_edges(cb, edges, bb) and _same_root(cb, msg, {"k": "copy", "place": {"l": 4}})
            why = "reply buffer of a Reply/InitializedWithReply result"
        else:
            why = "unreviewed caller of send_to"
        cx.check("send_to-caller:%s" % n, ok, site_of(cb, bb), why)
    # sealing chain: send_message -> encrypt_message -> CryptoCore::encrypt -> seal
    ok, n = ok_returns_behind(prog, send_message, _calls_to(prog, send_message, encrypt_message))
    cx.check("send_message-seals", ok, site_of(send_message), "every Ok return of send_message passes encrypt_message (%d return sites)" % n)
    ok, n = ok_returns_behind(prog, encrypt_message, _calls_to(prog, encrypt_message, core_encrypt) + [], fold={("PeerCrypto", "unencrypted"): False})
    # CryptoCore::encrypt returns (): treat "call reached" as success: every Ok return in encrypted mode is dominated by the call
    dead = folded_dead_edges(encrypt_message, {("PeerCrypto", "unencrypted"): False})
    live = encrypt_message.cfg.reachable_from([0], avoid_edges=dead)
    enc_calls = _calls_to(prog, encrypt_message, core_encrypt)
    good = bool(enc_calls)
    for kind, bi, info in result_return_sites(encrypt_message):
        if bi in live and kind == "ok":
            if not any(encrypt_message.cfg.dominates(ci, bi) or bi not in encrypt_message.cfg.reachable_from([0], avoid_blocks=[ci], avoid_edges=dead) for ci in enc_calls):
                good = False
    cx.check("encrypt_message-seals", good, site_of(encrypt_message), "in encrypted mode every Ok return of encrypt_message is behind CryptoCore::encrypt (A6 fold unencrypted=false)")
    seals = [(bi, t) for bi, t in core_encrypt.calls() if A.is_aead_seal(t)]
    rets = core_encrypt.cfg.exits
    good = len(seals) == 1 and all(core_encrypt.cfg.dominates(seals[0][0], r) for r in rets)
    cx.check("core-encrypt-seals", good, site_of(core_encrypt), "CryptoCore::encrypt reaches its return only through the AEAD seal call")
    # rotation emissions: prepend_byte(MESSAGE_TYPE_ROTATION) is followed by encrypt_message on every Ok path
    rot = prog.const_value("MESSAGE_TYPE_ROTATION")
    n_rot = 0
    for fn in (every_second, A.method(prog, "PeerCrypto", "handle_init_message")):
        cx.touch(fn)
        encs = _calls_to(prog, fn, encrypt_message)
        ok_edges = set()
        for ci in encs:
            ok_edges |= success_edges(fn, ci).ok_edges
        for bi, t in calls_in(fn, "MsgBuffer::prepend_byte"):
            if op_const(t["args"][1]) != rot:
                continue
            n_rot += 1
            reach = fn.cfg.reachable_from([bi], avoid_edges=ok_edges)
            bad = [rbi for kind, rbi, info in result_return_sites(fn) if kind == "ok" and rbi in reach]
            cx.check("rotation-sealed:" + fn.name, not bad and bool(ok_edges), site_of(fn, bi),
                     "a rotation message is typed and then sealed by encrypt_message before any Ok return")
    cx.floor("rotation-emissions", n_rot, 2, "prepend_byte(MESSAGE_TYPE_ROTATION) sites")


def r2_plain_only_by_consent(cx):
    prog = cx.prog
    w = field_writes(prog, "PeerCrypto", "unencrypted")
    stores = [(b, bi, k, s) for (b, bi, k, s) in w]
    cx.exact("unencrypted-stores", len(stores), 1, "stores to PeerCrypto.unencrypted")
    for (b, bi, k, s) in stores:
        cx.touch(b)
        val = None
        if k == "assign" and s.get("rv", {}).get("k") == "use":
            val = op_const(s["rv"]["op"])
        ok = False
        if val == 1:
            # control-dependent on Option::is_none(&self.core) being true, after self.core = take_core()
            for ci, ct in calls_in(b, "Option::is_none", "Option<T>::is_none"):
                r = op_root(b, ct["args"][0])
                if r is not None and place_is_field(r, "PeerCrypto", "core"):
                    oc = success_edges(b, ci)  # bool-returning call: ok edges == `true` edges
                    if dominated_by_edges(b, oc.ok_edges, bi):
                        # and the core was assigned from take_core before
                        tc = [x for x, tt in calls_in(b, "InitState::take_core", "InitState<P>::take_core") if b.cfg.dominates(x, ci)]
                        ok = bool(tc)
        cx.check("unencrypted-true-iff-no-core", ok, site_of(b, bi),
                 "unencrypted is set (to true) only when take_core() returned None")
    # constructor sets false
    for (b, bi, s) in aggregates(prog, "PeerCrypto"):
        rv = s["rv"]
        i = rv["fields"].index("unencrypted")
        cx.check("ctor-false:" + b.name, op_const(rv["ops"][i]) == 0, site_of(b, span=s["span"]), "PeerCrypto is constructed with unencrypted = false")
    sel = A.method(prog, "InitState", "select_algorithm")
    cx.touch(sel)
    own_t, _ = bool_place_edges(sel, lambda r: r["l"] == 1 and place_is_field(r, "Algorithms", "allow_unencrypted"))
    peer_t, _ = bool_place_edges(sel, lambda r: r["l"] == 2 and place_is_field(r, "Algorithms", "allow_unencrypted"))
    n = 0
    for kind, bi, info in result_return_sites(sel):
        if kind != "ok":
            continue
        o = origin(sel, info["rv"]["ops"][0])
        is_none = o[0] == "rvalue" and o[2]["rv"]["k"] == "aggregate" and o[2]["rv"].get("variant") == "None"
        if is_none:
            n += 1
            cx.check("ok-none-needs-both-flags", dominated_by_edges(sel, own_t, bi) and dominated_by_edges(sel, peer_t, bi), site_of(sel, bi),
                     "select_algorithm returns Ok(None) (plain) only when both the own and the peer's allow_unencrypted are true")
        elif o[0] != "rvalue" or o[2]["rv"].get("variant") != "Some":
            # Ok(<variable>): must not be able to be None unless both flags: accept only Some(..) aggregates
            p = op_place(info["rv"]["ops"][0])
            cx.check("ok-value-shape", False, site_of(sel, bi), "select_algorithm returns Ok(<non-literal option>): cannot decide plain-only-by-consent")
    cx.floor("ok-none-sites", n, 1, "Ok(None) returns in select_algorithm")
    # core is None only if select_algorithm returned None: handle_init stores Some(core) under the Some arm
    hi = A.method(prog, "InitState", "handle_init")
    sel_calls = _calls_to(prog, hi, sel)
    cx.exact("select-calls", len(sel_calls), 2, "calls of select_algorithm in handle_init (ping arm, pong arm)")


def r3_type_byte_after_open(cx):
    prog = cx.prog
    hm = A.method(prog, "PeerCrypto", "handle_message")
    dm = A.method(prog, "PeerCrypto", "decrypt_message")
    cx.touch(hm, dm)
    dcalls = _calls_to(prog, hm, dm)
    cx.exact("decrypt-calls", len(dcalls), 1, "calls of decrypt_message in PeerCrypto::handle_message")
    if len(dcalls) != 1:
        return
    d = dcalls[0]
    init_true = set()
    for ci, ct in calls_in(hm, "is_init_message"):
        init_true |= success_edges(hm, ci).ok_edges
    tps = calls_in(hm, "MsgBuffer::take_prefix")
    cx.floor("take_prefix-sites", len(tps), 2, "take_prefix calls in handle_message")
    for bi, t in tps:
        under_init = dominated_by_edges(hm, init_true, bi)
        after_open = dominated_by_ok(hm, d, bi)
        cx.check("take_prefix:%s" % ("init" if under_init else "data"), under_init or after_open, site_of(hm, bi),
                 "the type byte is read only after decrypt_message succeeded (or it is the handshake marker)")
    for (b, bi, s) in aggregates(prog, "MessageResult", "Message"):
        cx.check("message-after-open:" + b.name, b.did == hm.did and dominated_by_ok(hm, d, bi), site_of(b, span=s["span"]),
                 "MessageResult::Message is constructed only after the envelope opened")
    for bi, t in calls_in(hm, "handle_rotate_message"):
        cx.check("rotate-after-open", dominated_by_ok(hm, d, bi), site_of(hm, bi), "rotation messages are handled only after the envelope opened")
    # A6: in encrypted mode decrypt_message is an AEAD gate
    ag = A.aead_gate(prog)
    gcalls = [bi for bi, t in dm.calls() if ag.is_gate_call(dm, t)]
    ok, n = ok_returns_behind(prog, dm, gcalls, fold={("PeerCrypto", "unencrypted"): False})
    cx.check("decrypt_message-gate-encrypted", ok, site_of(dm), "with unencrypted=false every Ok of decrypt_message is the result of CryptoCore::decrypt (AEAD gate)")
    cd = A.method(prog, "CryptoCore", "decrypt")
    cx.check("core-decrypt-is-gate", cd.did in ag.funcs, site_of(cd), "CryptoCore::decrypt returns Ok only behind open_in_place's success edge")


def r4_interface_write_only_data(cx):
    prog = cx.prog
    writes = A.calls_where(prog, A.is_device_write)
    cx.exact("device-write-sites", len(writes), 1, "Device::write call sites")
    hp = A.cloud_fn(prog, "handle_payload_from")
    for (b, bi, t) in writes:
        cx.check("device-write-in-handle_payload_from", b.did == hp.did, site_of(b, bi), "Device::write only in handle_payload_from")
        cx.check("writes-received-buffer", _same_root(b, t["args"][1], {"k": "copy", "place": {"l": 3}}), site_of(b, bi),
                 "the buffer written to the interface is the received data parameter")
    callers = [(prog.by_did[c], bb) for (c, bb, kind) in prog.cg.callers.get(hp.did, [])]
    cx.exact("handle_payload_from-callers", len(callers), 1, "call sites of handle_payload_from")
    data_ty = prog.const_value("MESSAGE_TYPE_DATA")
    for (cb, bb) in callers:
        cx.touch(cb)
        e1 = switch_edges_on_variant(prog, cb, "MessageResult", ["Message"])
        ok1 = dominated_by_edges(cb, e1, bb)
        # under the arm where the message type equals MESSAGE_TYPE_DATA
        ok2 = False
        for sb in cb.cfg.reach:
            tt = cb.blocks[sb]["term"]
            if tt["k"] != "switch":
                continue
            p = op_place(tt["discr"])
            if p is None:
                continue
            r = root_place(cb, p)
            if any(e["k"] == "downcast" and e.get("v") == "Message" for e in r.get("p", [])):
                edges = set(("e", sb, k) for k, v in enumerate(tt["values"]) if v == data_ty)
                if dominated_by_edges(cb, edges, bb):
                    ok2 = True
        cx.check("payload-only-from-DATA-arm", ok1 and ok2, site_of(cb, bb),
                 "handle_payload_from is called only under MessageResult::Message(MESSAGE_TYPE_DATA)")


def r5_open_checked_before_state(cx):
    prog = cx.prog
    opens = A.calls_where(prog, A.is_aead_open)
    cx.floor("open-sites", len(opens), 1, "open_in_place call sites")
    for (b, bi, t) in opens:
        cx.touch(b)
        oc = success_edges(b, bi)
        cx.check("open-tested:" + b.name, bool(oc.ok_edges) and bool(oc.err_edges), site_of(b, bi), "result of open_in_place is tested")
        stores = [(sb, s) for sb, si, s in b.stmts() if s["k"] == "assign" and place_is_field(s["place"], "CryptoKey", "seen_nonce")]
        stores += [(sb, s) for sb, si, s in b.stmts() if s["k"] == "assign" and s["rv"]["k"] == "ref" and s["rv"].get("mut") and place_is_field(s["rv"]["place"], "CryptoKey", "seen_nonce")]
        cx.floor("seen-stores:" + b.name, len(stores), 1, "stores to seen_nonce next to open_in_place")
        for sb, s in stores:
            cx.check("seen-after-open:" + b.name, dominated_by_edges(b, oc.ok_edges, sb), site_of(b, span=s["span"]), "seen counter is raised only after a successful open")
        bad = []
        for e in oc.err_edges:
            reach = b.cfg.reachable_from_edge(e, avoid_edges=oc.ok_edges)
            bad += [rbi for kind, rbi, info in result_return_sites(b) if kind == "ok" and rbi in reach]
        cx.check("open-failure-returns-err:" + b.name, not bad, site_of(b, bi), "open failure leads only to Err returns")
    # who may write seen_nonce at all
    w = field_writes(prog, "CryptoKey", "seen_nonce")
    fns = sorted(set(b.path for (b, bi, k, s) in w))
    allowed = [A.method(prog, "CryptoCore", "decrypt_with_key").path]
    cx.check("seen-writers", all(f in allowed for f in fns), None, "seen_nonce is written only in %s (found: %s)" % (allowed, fns))


def r6_reflection_guard(cx):
    prog = cx.prog
    # seal side: CryptoKey::new sets msb from nonce_half: true->0x80, false->0x00
    new = A.method(prog, "CryptoKey", "new")
    dec = A.method(prog, "CryptoCore", "decrypt")
    cx.touch(new, dec)

    def msb_table(body, flag_pred):
        """Map flag value -> constant passed to Nonce::set_msb."""
        te, fe = bool_place_edges(body, flag_pred)
        table = {}
        calls = calls_in(body, "Nonce::set_msb")
        for bi, t in calls:
            arg = t["args"][1]
            l = op_local(arg)
            if l is None:
                c = op_const(arg)
                table["const"] = c
                continue
            # follow plain copies to the local that is assigned the constants on the two arms
            for _ in range(8):
                sd = defuse(body).single_def(l)
                if sd and sd[0] == "stmt" and sd[3]["rv"]["k"] == "use" and op_local(sd[3]["rv"]["op"]) is not None and not op_place(sd[3]["rv"]["op"]).get("p"):
                    l = op_local(sd[3]["rv"]["op"])
                else:
                    break
            for d in defuse(body).defs.get(l, []):
                if d[0] == "stmt" and d[3]["rv"]["k"] == "use":
                    c = op_const(d[3]["rv"]["op"])
                    if c is None:
                        continue
                    sb = d[1]
                    if dominated_by_edges(body, te, sb) and not dominated_by_edges(body, fe, sb):
                        table[True] = c
                    elif dominated_by_edges(body, fe, sb) and not dominated_by_edges(body, te, sb):
                        table[False] = c
        return table, len(calls)

    seal, n1 = msb_table(new, lambda r: r["l"] == 3 and not r.get("p"))
    opn, n2 = msb_table(dec, lambda r: place_is_field(r, "CryptoCore", "nonce_half"))
    cx.check("seal-table", set(seal.keys()) == {True, False} and seal[True] != seal[False] and n1 == 1, site_of(new),
             "CryptoKey::new maps the half flag to two distinct marker bytes (%s)" % seal)
    cx.check("open-table", set(opn.keys()) == {True, False} and n2 == 1, site_of(dec),
             "CryptoCore::decrypt maps the own half flag to a marker byte, exactly once (%s)" % opn)
    if set(seal.keys()) == {True, False} and set(opn.keys()) == {True, False}:
        cx.check("complementary", opn[True] == seal[False] and opn[False] == seal[True], site_of(dec),
                 "open(b) = seal(not b): a node never reconstructs its own half (seal %s, open %s)" % (seal, opn))
    dwk = A.method(prog, "CryptoCore", "decrypt_with_key")
    calls = _calls_to(prog, dec, dwk)
    cx.exact("one-open-per-decrypt", len(calls), 1, "calls of decrypt_with_key in decrypt")
    for ci in calls:
        cx.check("open-not-in-loop", not dec.cfg.in_loop(ci), site_of(dec, ci), "decrypt_with_key is not retried in a loop (no second half attempt)")
    # the nonce_half field of the core is written only by the constructor (aggregate), never reassigned
    w = field_writes(prog, "CryptoCore", "nonce_half")
    cx.check("half-immutable", not w, site_of(w[0][0], w[0][1]) if w else None, "CryptoCore.nonce_half is never reassigned after construction")


def r7_handshake_payload_sealed(cx):
    """The node information travels inside pong / peng, sealed by `InitState::encrypt_payload` with the handshake's
    own crypto core - which exists only between the negotiation in `handle_init` and the hand-over of the core to
    the connection (`take_core`); `encrypt_payload` silently leaves the payload in clear when there is no core.
    Rule: every `InitState::send_message` call for a payload-carrying stage (anything but the constant STAGE_PING)
    is dominated by the `select_algorithm` call of the same activation, i.e. a pong / peng is *built* only in the
    call that has just negotiated; later repetitions replay the stored bytes (`repeat_last_message`)."""
    prog = cx.prog
    sm = A.method(prog, "InitState", "send_message")
    sel = A.method(prog, "InitState", "select_algorithm")
    ping = prog.const_value("STAGE_PING")
    sites = []
    for (c, bb, kind) in prog.cg.callers.get(sm.did, []):
        sites.append((prog.by_did[c], bb))
    cx.floor("send_message-sites", len(sites), 3, "call sites of InitState::send_message")
    n = 0
    for (b, bi) in sorted(sites, key=lambda x: (x[0].path, x[1])):
        cx.touch(b)
        t = b.blocks[bi]["term"]
        stage = op_const(t["args"][1]) if len(t["args"]) > 1 else None
        if stage is None and len(t["args"]) > 1:
            o = origin(b, t["args"][1])
            if o[0] == "const":
                stage = op_const(o[1])
        if stage == ping:
            continue
        n += 1
        sels = [ci for ci, ct in b.calls() if any(d == sel.did for _k, d in prog.cg.resolve(b, ct))]
        ok = any(b.cfg.dominates(ci, bi) for ci in sels)
        cx.check("payload-built-right-after-negotiation:%s" % b.name, ok, site_of(b, bi),
                 "a handshake message carrying the (sealed) node information is built only in the activation that has just negotiated the cipher (stage %s)" % stage)
    cx.floor("payload-carrying-sites", n, 2, "send_message sites for pong / peng")
    # encrypt_payload is reached from send_message only
    ep = A.method(prog, "InitState", "encrypt_payload")
    callers = sorted(set(prog.by_did[c].path for (c, bb, k) in prog.cg.callers.get(ep.did, [])))
    cx.check("encrypt_payload-callers", callers == [sm.path], None, "encrypt_payload is called by send_message only (found %s)" % callers)


RULES = [
    ("C02.R1", r1_every_wire_write_sealed, "every Socket::send is sealed (send_message/encrypt chain), handshake, or the statsd exception"),
    ("C02.R2", r2_plain_only_by_consent, "unencrypted only when take_core() is None; Ok(None) only when both allow_unencrypted flags"),
    ("C02.R3", r3_type_byte_after_open, "message type read / Message result / rotation handling only after decrypt_message Ok; AEAD gate in encrypted mode"),
    ("C02.R4", r4_interface_write_only_data, "Device::write only in handle_payload_from, called only under Message(DATA)"),
    ("C02.R5", r5_open_checked_before_state, "open_in_place result checked before seen counter store; failure returns Err"),
    ("C02.R6", r6_reflection_guard, "seal/open marker tables complementary; one open attempt per datagram"),
    ("C02.R7", r7_handshake_payload_sealed, "pong / peng (carrying the node information) are built only right after the negotiation, while the handshake's core exists"),
]

LEVEL_TEXT = ("Static shape clauses on MIR: who may call Socket::send / Device::write and under which dominating success edges "
              "(seal before send, open before type byte, DATA arm before interface write), the plain-mode flag is set only on mutual consent, "
              "open_in_place is checked before the replay counter moves, and the sender/receiver nonce-half marker tables are complementary."
              " Since round 3: the handshake's own payload (pong / peng carrying the node information) is built only in the activation that has just negotiated the cipher.")
LEVEL_NOTE = ("Decides C02.R1-R6 (necessary conditions). Not decided: byte-identical delivery, absence of cleartext on the wire, AEAD tamper "
              "rejection (ring contract), rejection across connections (distinct ECDH keys).")
TECHNIQUE = "MIR who-may-call + dominance by success edges, flag-specialised regions, constant decision tables (sibling agreement)"
