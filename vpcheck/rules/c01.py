"""C01 - only holders of a mutually trusted key can become peers (DESIGN.md section 4, C01.R1-R6)."""
from ..engine import site_of
from ..facts import op_place, op_local, op_const, AnchorError
from ..callgraph import callee_is
from ..mirutil import (feasible_reach, success_edges, dominated_by_ok, result_return_sites, forward_taint, root_place,
                       op_root, place_is_field, calls_on_field, aggregates, origin, defuse, calls_in, deep_root)
from ..region import (pregate_region, write_summary, switch_edges_on_variant, dominated_by_edges)
from .. import anchors as A

READERS = ("io::Read::read_exact", "io::Read::read", "io::Read::read_to_end", "ReadBytesExt::read_u8", "ReadBytesExt::read_u16", "ReadBytesExt::read_u32", "ReadBytesExt::read_u64",
           "ReadBytesExt::read_f32", "io::Read::read_exact", "Read>::read_exact", "io::Read::read", "read_to_end")


def r1_verify_before_accept(cx):
    prog = cx.prog
    gate = A.sig_gate(prog)
    sites = A.calls_where(prog, A.is_sig_verify)
    cx.floor("verify-sites", len(sites), 1, "calls to UnparsedPublicKey::verify")
    for (b, bi, t) in sites:
        cx.touch(b)
        key = b.path
        cx.check("gate:" + key, b.did in gate.funcs, site_of(b, bi),
                 "every Ok(..) returned by the function that verifies the signature is dominated by the "
                 "success edge of verify (A5 gate function)")
        oc = success_edges(b, bi)
        cx.check("tested:" + key, bool(oc.ok_edges) and bool(oc.err_edges) and not oc.unrecognised, site_of(b, bi),
                 "result of verify is tested by a recognised idiom (ok edges %d, err edges %d)" % (len(oc.ok_edges), len(oc.err_edges)))
        # the failure edge returns Err: no Ok return reachable from err edges without passing ok edges
        bad = []
        for e in oc.err_edges:
            reach = b.cfg.reachable_from_edge(e, avoid_edges=oc.ok_edges)
            for kind, rbi, info in result_return_sites(b):
                if kind in ("ok",) and rbi in reach:
                    bad.append(rbi)
        cx.check("fail-returns-err:" + key, not bad, site_of(b, bi), "verification failure leads only to Err returns")
        # the key handed to verify flows from the trusted_keys parameter
        tk = [l for l in range(1, b.arg_count + 1) if "[[u8; 32]]" in b.local_ty(l).s]
        if not tk:
            cx.check("trusted-param:" + key, False, site_of(b), "no parameter of type &[[u8; 32]] (trusted key list)")
            continue
        tainted = forward_taint(b, seed_locals=tk)
        # verify(self=&UnparsedPublicKey, msg, sig): self originates from UnparsedPublicKey::new(alg, key)
        o = origin(b, t["args"][0])
        ok = False
        if o[0] == "call" and callee_is(o[2], "UnparsedPublicKey::new", "UnparsedPublicKey<B>::new"):
            keyarg = o[2]["args"][1]
            r = op_root(b, keyarg)
            ok = r is not None and r["l"] in tainted
        else:
            r0 = op_root(b, t["args"][0])
            if r0 is not None:
                d = defuse(b).single_def(r0["l"])
                if d and d[0] == "call" and d[2]["callee"]["name"] == "new":
                    r = op_root(b, d[2]["args"][1])
                    ok = r is not None and r["l"] in tainted
        cx.check("key-from-trusted:" + key, ok, site_of(b, bi),
                 "public key given to verify flows (A11) from an element of the trusted-keys parameter")
        # not-found path returns Err: an `Err(Crypto("untrusted peer"))`-style exit exists before any reader loop
        # (checked structurally: there is an Err return not dominated by any reader call that parses fields)


def r2_signed_range(cx):
    prog = cx.prog
    sites = A.calls_where(prog, A.is_sig_verify)
    for (b, bi, t) in sites:
        cx.touch(b)
        key = b.path
        # message argument = Index::index(buf, Range{0, pos})
        o = origin(b, t["args"][1])
        if not (o[0] == "call" and callee_is(o[2], "ops::Index<I>>::index", "Index>::index", "ops::Index::index")):
            cx.check("range:" + key, False, site_of(b, bi), "message given to verify is not a sub-slice of the input (unrecognised idiom: %s)" % (o[0],))
            continue
        idx = o[2]
        ro = origin(b, idx["args"][1])
        rng_ok = False
        pos_call = None
        if ro[0] == "rvalue" and ro[2]["rv"]["k"] == "aggregate" and ro[2]["rv"].get("adt", "").endswith("ops::Range"):
            ops = ro[2]["rv"]["ops"]
            start = op_const(ops[0]) if ops[0]["k"] == "const" else None
            eo = origin(b, ops[1])
            if start == 0 and eo[0] == "call" and callee_is(eo[2], "Cursor::position", "Cursor<T>::position"):
                rng_ok = True
                pos_call = eo[1]
        if ro[0] == "rvalue" and ro[2]["rv"]["k"] == "aggregate" and ro[2]["rv"].get("adt", "").endswith("ops::RangeTo"):
            eo = origin(b, ro[2]["rv"]["ops"][0])
            if eo[0] == "call" and callee_is(eo[2], "Cursor::position", "Cursor<T>::position"):
                rng_ok = True
                pos_call = eo[1]
        cx.check("range:" + key, rng_ok, site_of(b, bi), "signed data is buffer[0..pos] / buffer[..pos] with pos = cursor.position()")
        if pos_call is None:
            continue
        cfg = b.cfg
        loops = cfg.loops()
        in_loop = any(pos_call in body for body in loops.values())
        cx.check("pos-after-loop:" + key, not in_loop, site_of(b, pos_call), "position() is taken outside the field loop")
        # every reader call is either before position() (dominates it or cannot be reached after it), or after it
        after = cfg.reachable_from([pos_call]) - {pos_call}
        readers_after = [(rbi, rt) for rbi, rt in b.calls() if rbi in after and callee_is(rt, *READERS)]
        readers_before = [(rbi, rt) for rbi, rt in b.calls() if rbi not in after and callee_is(rt, *READERS)]
        cx.floor("readers-before:" + key, len(readers_before), 5, "field reads before the end of the signed range")
        # data read after pos must not flow into the returned message
        seeds = set()
        for rbi, rt in readers_after:
            seeds.add(rt["dest"]["l"])
            for a in rt["args"][1:]:
                r = deep_root(b, a)
                if r is not None:
                    seeds.add(r["l"])
        tainted = forward_taint(b, seed_locals=seeds, mut_args=False)
        leaks = []
        for kind, rbi, info in result_return_sites(b):
            if kind == "ok":
                for op in info["rv"]["ops"]:
                    l = op_local(op)
                    if l is not None and l in tainted:
                        leaks.append(rbi)
        cx.check("no-field-after-pos:" + key, not leaks and len(readers_after) <= 2, site_of(b, pos_call),
                 "%d read(s) follow position(); none of their data flows into the returned message" % len(readers_after))
        # the buffer indexed is the cursor's own buffer (into_inner / get_ref of the cursor built from the parameter)
        bo = origin(b, idx["args"][0])
        same = bo[0] == "call" and callee_is(bo[2], "Cursor::into_inner", "Cursor<T>::into_inner", "Cursor::get_ref", "Cursor<T>::get_ref")
        if not same and bo[0] == "place":
            same = 1 <= bo[1]["l"] <= b.arg_count
        cx.check("same-buffer:" + key, same, site_of(b, bi), "the slice verified is taken from the parsed buffer itself")


def _handle_init(prog):
    return A.method(prog, "InitState", "handle_init")


def r3_verify_before_mutate(cx):
    prog = cx.prog
    gate = A.sig_gate(prog)
    ws = write_summary(prog)
    hi = _handle_init(prog)
    cx.touch(hi)
    gcalls = gate.gate_calls(hi)
    cx.exact("gate-calls", len(gcalls), 1, "calls from handle_init to a signature gate function", site_of(hi))
    if len(gcalls) != 1:
        return
    g = gcalls[0]
    oc = success_edges(hi, g)
    cx.check("gate-tested", bool(oc.ok_edges) and not oc.unrecognised, site_of(hi, g), "result of the parse/verify call is tested (`?`)")
    pre = gate.pre_blocks(hi)
    # stores and writing calls through self (_1) or out (_2) in pre-gate blocks
    bad = []
    n_checked = 0
    for bi in sorted(hi.cfg.reach):
        blk = hi.blocks[bi]
        for s in blk["stmts"]:
            if s["k"] == "assign" and s["place"].get("p"):
                r = root_place(hi, s["place"])
                if r["l"] in (1, 2) and any(e["k"] == "deref" for e in r.get("p", [])):
                    n_checked += 1
                    if bi in pre:
                        bad.append((bi, "store to %s" % ".".join(str(e.get("n", e["k"])) for e in r["p"])))
        t = blk["term"]
        if t["k"] == "call" and bi != g:
            for reason, ai in ws.call_writes(hi, t):
                r = op_root(hi, t["args"][ai])
                if r is not None and r["l"] in (1, 2):
                    n_checked += 1
                    if bi in pre:
                        bad.append((bi, "writing call %s" % t["callee"]["path"]))
    cx.floor("mutations-seen", n_checked, 10, "stores/writing calls through self or the output buffer in handle_init")
    for bi, what in bad:
        cx.check("pre-gate-mutation:%s" % what, False, site_of(hi, bi), "%s before the signature gate succeeded" % what)
    if not bad:
        cx.check("no-pre-gate-mutation", True, site_of(hi), "all %d stores/writing calls through self/out are dominated by the gate's success edge" % n_checked)


def r4_error_class(cx):
    prog = cx.prog
    gate = A.sig_gate(prog)
    entry = A.cloud_fn(prog, "handle_socket_event")
    pre, post = pregate_region(prog, [entry], gate)
    sites = aggregates(prog, "Error", "CryptoInitFatal")
    cx.floor("fatal-sites", len(sites), 5, "constructions of Error::CryptoInitFatal")
    for (b, bi, s) in sites:
        cx.touch(b)
        inpre = b.did in pre and bi in pre[b.did]
        msg = ""
        ops = s["rv"]["ops"]
        if ops and ops[0]["k"] == "const":
            msg = ops[0].get("str", "")
        cx.check("fatal-post-gate:%s:%s" % (b.path, msg), not inpre, site_of(b, span=s["span"]),
                 "CryptoInitFatal(%r) is not constructible from a datagram before its signature verified" % msg)
    # the deletion of a pending handshake on the datagram path happens only under the CryptoInitFatal arm
    rem = [(b, bi, t) for (b, bi, t) in calls_on_field(prog, ("HashMap::remove", "HashMap<K, V, S>::remove"), "GenericCloud", "pending_inits", bodies=[entry])]
    edges = switch_edges_on_variant(prog, entry, "error::Error", ["CryptoInitFatal"])
    for (b, bi, t) in rem:
        cx.check("pending-remove-under-fatal", dominated_by_edges(b, edges, bi), site_of(b, bi),
                 "pending_inits.remove in the socket event handler is under the CryptoInitFatal arm")
    cx.exact("pending-remove-sites", len(rem), 1, "pending_inits.remove in handle_socket_event")


def r5_responder_stored_if_verified(cx):
    prog = cx.prog
    gate = A.sig_gate(prog)
    ins = calls_on_field(prog, ("HashMap::insert", "HashMap<K, V, S>::insert"), "GenericCloud", "pending_inits")
    cx.exact("insert-sites", len(ins), 2, "pending_inits.insert call sites")
    allowed_dial = {"connect_sock"}
    for (b, bi, t) in ins:
        cx.touch(b)
        if b.name in allowed_dial:
            # local dialling: the stored object is a fresh peer_instance on which initialize() succeeded
            val = op_root(b, t["args"][2])
            ok = False
            for ci, ct in calls_in(b, "PeerCrypto::initialize", "PeerCrypto<P>::initialize"):
                r = op_root(b, ct["args"][0])
                if r is not None and val is not None and r["l"] == val["l"] and dominated_by_ok(b, ci, bi):
                    ok = True
            cx.check("dial-site:" + b.name, ok, site_of(b, bi), "initiator entry is stored after initialize() succeeded on that object", how="table")
            continue
        # responder: dominated by the Ok edge of handle_message on the very object inserted
        val = op_root(b, t["args"][2])
        ok = False
        the_call = None
        for ci, ct in calls_in(b, "PeerCrypto::handle_message", "PeerCrypto<P>::handle_message"):
            r = op_root(b, ct["args"][0])
            if r is not None and val is not None and r["l"] == val["l"]:
                the_call = ci
                if dominated_by_ok(b, ci, bi):
                    ok = True
        cx.check("responder-site:" + b.name, ok, site_of(b, bi),
                 "responder object is stored only on the Ok edge of handle_message on that same object")
        if the_call is not None:
            # on the Err edge nothing is sent before return
            oc = success_edges(b, the_call)
            senders = _sending_functions(prog)
            bad = []
            for e in oc.err_edges:
                for rb in feasible_reach(b, [b.cfg.succ[e[1]][e[2]]], avoid_edges=oc.ok_edges):
                    tt = b.blocks[rb]["term"]
                    if tt["k"] == "call":
                        if A.is_socket_send(tt) or any(d in senders for _k, d in prog.cg.resolve(b, tt)):
                            bad.append(rb)
            cx.check("no-reply-on-reject:" + b.name, not bad and bool(oc.err_edges), site_of(b, the_call),
                     "no send is reachable on the Err edge of the responder's first handle_message")
    # handle_message (PeerCrypto) on an init datagram is a gate: its Initialized*/Reply results come from handle_init_message
    him = A.method(prog, "PeerCrypto", "handle_init_message")
    cx.check("handle_init_message-is-gate", him.did in gate.funcs, site_of(him), "PeerCrypto::handle_init_message returns Ok only behind the signature gate")


def _sending_functions(prog):
    if not hasattr(prog, "_senders"):
        s = set()
        for b in prog.bodies:
            if any(A.is_socket_send(t) for _bi, t in b.calls()):
                s.add(b.did)
        # transitive callers
        changed = True
        while changed:
            changed = False
            for b in prog.bodies:
                if b.did in s:
                    continue
                for k, d, bb in prog.cg.callees(b.did):
                    if d in s:
                        s.add(b.did)
                        changed = True
                        break
        prog._senders = s
    return prog._senders


def r6_single_door(cx):
    prog = cx.prog
    gate = A.sig_gate(prog)
    ins = calls_on_field(prog, ("HashMap::insert", "HashMap<K, V, S>::insert"), "GenericCloud", "peers")
    cx.exact("peers-insert-sites", len(ins), 1, "peers.insert call sites")
    for (b, bi, t) in ins:
        cx.check("peers-insert-in-add_new_peer", b.name == "add_new_peer", site_of(b, bi), "peers.insert happens in add_new_peer only")
    # other ways to add to the peer map: entry(), extend, get_or_insert, direct assignment of the field
    other = calls_on_field(prog, ("HashMap::entry", "HashMap<K, V, S>::entry", "Extend>::extend", "HashMap::extend", "try_insert"), "GenericCloud", "peers")
    cx.check("no-other-door", not other, site_of(other[0][0], other[0][1]) if other else None, "no entry()/extend() on the peer map")
    anp = A.cloud_fn(prog, "add_new_peer")
    callers = [(prog.by_did[c], bb) for (c, bb, kind) in prog.cg.callers.get(anp.did, [])]
    cx.floor("add_new_peer-callers", len(callers), 2, "call sites of add_new_peer")
    for (cb, bb) in callers:
        cx.touch(cb)
        edges = switch_edges_on_variant(prog, cb, "MessageResult", ["Initialized", "InitializedWithReply"])
        cx.check("add_new_peer-under-initialized:%s" % cb.name, dominated_by_edges(cb, edges, bb), site_of(cb, bb),
                 "add_new_peer is called only under a MessageResult::Initialized* arm")
    # MessageResult::Initialized* constructed only under InitResult::Success in handle_init_message
    for var in ("Initialized", "InitializedWithReply"):
        sites = aggregates(prog, "MessageResult", var)
        cx.floor("construct-" + var, len(sites), 1, "constructions of MessageResult::" + var)
        for (b, bi, s) in sites:
            cx.touch(b)
            ok = b.name == "handle_init_message"
            if ok:
                edges = switch_edges_on_variant(prog, b, "InitResult", ["Success"])
                ok = dominated_by_edges(b, edges, bi)
            cx.check("initialized-under-success:%s:%s" % (var, b.name), ok, site_of(b, span=s["span"]),
                     "MessageResult::%s is constructed only in the InitResult::Success arm of handle_init_message" % var)
    # InitResult::Success only in handle_init, behind the gate and behind a successful payload decrypt
    hi = _handle_init(prog)
    sites = aggregates(prog, "InitResult", "Success")
    cx.floor("construct-Success", len(sites), 2, "constructions of InitResult::Success")
    dec = A.method(prog, "InitState", "decrypt")
    for (b, bi, s) in sites:
        cx.touch(b)
        if b.did != hi.did:
            cx.check("success-site:" + b.path, False, site_of(b, span=s["span"]), "InitResult::Success constructed outside handle_init")
            continue
        okg = dominated_by_edges(b, gate.ok_edges(b), bi)
        dcalls = [ci for ci, ct in b.calls() if any(d == dec.did for _k, d in prog.cg.resolve(b, ct))]
        okd = any(dominated_by_ok(b, ci, bi) for ci in dcalls)
        init = [o for o in s["rv"]["ops"]]
        which = "initiator" if any(op_const(o) == 1 for o in init) else "responder"
        cx.check("success-behind-gate:" + which, okg, site_of(b, span=s["span"]), "Success is dominated by the signature gate's success edge")
        cx.check("success-behind-decrypt:" + which, okd, site_of(b, span=s["span"]),
                 "Success is dominated by the success edge of the payload decrypt (payload opens under the agreed key)")
    # InitState::decrypt really opens: when a crypto core is present its decrypt (an AEAD gate) is `?`-checked
    ag = A.aead_gate(prog)
    cd = [ci for ci, ct in dec.calls() if ag.is_gate_call(dec, ct)]
    ok = False
    for ci in cd:
        oc = success_edges(dec, ci)
        retok = [rbi for kind, rbi, info in result_return_sites(dec) if kind in ("ok", "call")]
        # every non-error return reachable from the call passes its ok edge
        reach = dec.cfg.reachable_from([ci], avoid_edges=oc.ok_edges)
        if oc.ok_edges and not any(r in reach for r in retok):
            ok = True
    cx.check("init-decrypt-opens", ok and len(cd) == 1, site_of(dec), "InitState::decrypt propagates the failure of CryptoCore::decrypt (AEAD gate)")


def _c18_r3(cx):
    from . import c18
    return c18.r3_own_key_trusted_by_default(cx)


RULES = [
    ("C01.R1", r1_verify_before_accept, "verify-before-accept: function calling verify is a signature gate; key flows from trusted keys"),
    ("C01.R2", r2_signed_range, "signed range covers parsed fields: [0..position()] after the field loop"),
    ("C01.R3", r3_verify_before_mutate, "handle_init: gate dominates every store/writing call through self and out"),
    ("C01.R4", r4_error_class, "CryptoInitFatal is not constructible pre-verification on the datagram path"),
    ("C01.R5", r5_responder_stored_if_verified, "pending_inits.insert only for verified responder / local dial; no reply on reject"),
    ("C01.R6", r6_single_door, "single door to the peer map behind Initialized* <- Success <- gate+decrypt"),
    ("C01.R7", _c18_r3, "the trusted set is the configured keys; the own key is trusted only when none is configured (= C18.R3)"),
]

LEVEL_TEXT = ("Static necessary conditions decided on MIR for every path: the function calling Ed25519 verify returns Ok only behind "
              "verify's success edge with a key flowing from the trusted list; the signed range is [0..position()] taken after the "
              "field loop; handle_init performs no store or writing call through self/out before the gate; CryptoInitFatal (the only "
              "error that deletes a pending handshake) cannot be constructed pre-verification on the datagram path; pending_inits/peers "
              "insertions are reachable only behind the gate (+ payload decrypt for Success). Holds for all inputs and receiver states "
              "because no value is inspected.")
LEVEL_NOTE = ("Decides shape clauses C01.R1-R6 only. Not decided: that Ed25519 rejects every altered message (ring contract), the 4-byte "
              "salted-hash key selection, and the two-node relation 'exactly when each trusts the other'.")
TECHNIQUE = "MIR dominance / gate-function (must-pass-through) analysis, who-may-call/construct, field-sensitive taint"
