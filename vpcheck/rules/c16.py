"""C16 - wire codecs: total decoders, agreeing tag tables and flag layout (DESIGN.md section 4, C16.R1-R3). Partial."""
from ..engine import site_of
from ..facts import op_place, op_local, op_const, AnchorError
from ..callgraph import callee_is
from ..mirutil import (root_place, op_root, deep_root, origin, defuse, calls_in, loops_of, success_edges)
from ..totality import check_region, closure_region
from ..intervals import analyse
from .c08 import READER_CALLS, SHRINK_CALLS, loop_makes_progress
from .. import anchors as A

ALLOC_CALLS = ("vec::from_elem", "smallvec::SmallVec::from_elem", "smallvec::SmallVec::with_capacity", "vec::Vec::with_capacity",
               "string::String::with_capacity", "vec::Vec::resize", "smallvec::SmallVec::resize", "vec::Vec::reserve",
               "smallvec::SmallVec::reserve", "util::MsgBuffer::set_length")
MAX_ALLOC = 65535


def decoders(prog):
    names = ["messages::NodeInfo::decode", "crypto::init::InitMsg::read_from", "crypto::rotate::RotationMessage::read_from",
             "types::Range::read_from", "types::Address::read_from", "types::Address::read_from_fixed"]
    out = []
    for n in names:
        hits = [b for b in prog.bodies if b.path == n]
        if len(hits) != 1:
            raise AnchorError("decoder %s not found" % n)
        out.append(hits[0])
    return out


def r1_decoders_total(cx):
    prog = cx.prog
    ents = decoders(prog)
    region = closure_region(prog, ents)
    st = check_region(cx, region, "C16", ents, "decoder")
    cx.floor("decoder-sites", st["sites"], 30, "panic-capable sites in the decoders' call-graph closure")
    # loops make reader progress or iterate a counted range
    n = 0
    for did, blocks in sorted(region.items()):
        b = prog.by_did[did]
        for li in loops_of(b):
            n += 1
            kind = None
            if li.next_calls and li.exhaust_exits:
                kind = "iterator"
            else:
                if loop_makes_progress(b, li):
                    kind = "progress"
            cx.check("loop:" + b.path, kind is not None, site_of(b, li.header), "decoder loop terminates (%s)" % (kind or "no progress argument"))
    cx.floor("decoder-loops", n, 6, "loops in the decoders")
    # allocation sizes are bounded by a u8/u16 wire field
    na = 0
    strict = prog.cg.closure([e.did for e in ents], kinds=("direct", "dyn", "closure", "fnitem"))
    for did, blocks in sorted(region.items()):
        if did not in strict:
            continue  # formatting / container callbacks reached only through conservative generic edges
        b = prog.by_did[did]
        an = None
        for bi, t in b.calls():
            if not callee_is(t, *ALLOC_CALLS):
                continue
            na += 1
            an = an or analyse(b)
            st = an.state_at(bi)
            size_arg = t["args"][-1] if not callee_is(t, "vec::from_elem", "smallvec::SmallVec::from_elem") else t["args"][1]
            v = an.op_itv(st, size_arg) if st is not None else (0, 0)
            cx.check("alloc-bounded:%s:%s" % (b.path, t["callee"]["name"]), v is not None and v[1] <= MAX_ALLOC, site_of(b, bi),
                     "allocation / length request is bounded by the wire field's type: %s <= %d" % (v, MAX_ALLOC))
    cx.floor("allocations", na, 6, "allocation sites in the decoders")


def _const_u8_writes(body, prog):
    """Constants passed to WriteBytesExt::write_u8 in body and its closures."""
    out = []
    for b in [body] + prog.closures_of(body):
        for bi, t in b.calls():
            if callee_is(t, "WriteBytesExt::write_u8") and len(t["args"]) == 2:
                out.append((b, bi, op_const(t["args"][1])))
    return out


def _tag_switch(body):
    """(values handled by a switch on a byte read from the wire, constants compared for equality with it)."""
    vals = set()
    eqs = set()
    otherwise = []
    du = defuse(body)

    def from_wire(l, depth=0):
        if depth > 6:
            return False
        for d in du.defs.get(l, []):
            if d[0] == "call":
                if callee_is(d[2], "ReadBytesExt::read_u8"):
                    return True
                if callee_is(d[2], "ops::Try::branch", "result::Result::map_err") and d[2]["args"] and op_place(d[2]["args"][0]) is not None:
                    return from_wire(op_place(d[2]["args"][0])["l"], depth + 1)
                return False
            rv = d[3]["rv"]
            if rv["k"] == "use" and op_place(rv["op"]) is not None:
                return from_wire(op_place(rv["op"])["l"], depth + 1)
        return False

    for bi in body.cfg.reach:
        t = body.blocks[bi]["term"]
        if t["k"] == "switch":
            l = op_local(t["discr"])
            if l is not None and body.local_ty(l).k == "int" and body.local_ty(l).d["bits"] == 8 and from_wire(l) and len(t["values"]) >= 3:
                vals |= set(t["values"])
                otherwise.append((bi, t["otherwise"], len(t["values"])))
        for s in body.blocks[bi]["stmts"]:
            if s["k"] == "assign" and s["rv"]["k"] == "binop" and s["rv"]["op"] == "Eq":
                for x, y in ((s["rv"]["a"], s["rv"]["b"]), (s["rv"]["b"], s["rv"]["a"])):
                    c = op_const(y)
                    l = op_local(x)
                    if c is not None and l is not None and from_wire(l):
                        eqs.add(c)
    return vals, eqs, otherwise


def r2_tag_tables(cx):
    prog = cx.prog
    pairs = [("NodeInfo", "messages::NodeInfo::encode_internal", "messages::NodeInfo::decode_internal", "messages::NodeInfo::encode_part"),
             ("InitMsg", "crypto::init::InitMsg::write_to", "crypto::init::InitMsg::read_from", None)]
    for name, enc_p, dec_p, part_fn in pairs:
        enc = [b for b in prog.bodies if b.path == enc_p]
        dec = [b for b in prog.bodies if b.path == dec_p]
        if len(enc) != 1 or len(dec) != 1:
            raise AnchorError("codec pair %s not found" % name)
        enc, dec = enc[0], dec[0]
        cx.touch(enc, dec)
        tags = set()
        if part_fn:
            for bi, t in enc.calls():
                if t.get("callee") and t["callee"]["path"] == part_fn:
                    tags.add(op_const(t["args"][1]))
            tags |= set(c for (_b, _bi, c) in _const_u8_writes(enc, prog))
        else:
            tags |= set(c for (_b, _bi, c) in _const_u8_writes(enc, prog))
        tags.discard(None)
        vals, eqs, otherwise = _tag_switch(dec)
        cx.check("tags-handled:" + name, bool(tags) and tags <= (vals | eqs), site_of(dec),
                 "every tag written by the encoder %s has an arm in the decoder (switch %s, end marker %s)" % (sorted(tags), sorted(vals), sorted(eqs)))
        cx.check("end-marker:" + name, 0 in eqs and 0 in tags, site_of(dec), "encoder writes and decoder tests the end marker 0")
        # the default arm consumes exactly the announced length and continues with the loop
        cx.floor("tag-switches:" + name, len(otherwise), 1, "switches on a wire byte in the decoder")
        loops = loops_of(dec)
        # the part-tag switch is the one with the most arms (other switches decode ids inside a part)
        otherwise = sorted(otherwise, key=lambda x: -x[2])[:1]
        for (sb, tgt, k) in otherwise:
            reach = dec.cfg.reachable_from([tgt])
            skip = None
            for bi in sorted(reach):
                t = dec.blocks[bi]["term"]
                if t["k"] == "call" and callee_is(t, "vec::from_elem", "smallvec::SmallVec::from_elem") and dec.cfg.dominates(("e", sb, k), bi):
                    o = origin(dec, t["args"][1])
                    if o[0] == "call" and callee_is(o[2], "ops::Try::branch"):
                        o = origin(dec, o[2]["args"][0])
                    skip = (bi, o)
            ok_len = False
            if skip is not None:
                # the size originates from the u16 length field read just after the tag
                def traces_to_len(op, depth=0):
                    o = origin(dec, op)
                    if depth > 8:
                        return False
                    if o[0] == "call":
                        if callee_is(o[2], "ReadBytesExt::read_u16"):
                            return True
                        if o[2]["args"]:
                            return traces_to_len(o[2]["args"][0], depth + 1)
                    if o[0] == "place":
                        return False
                    return False
                ok_len = traces_to_len(dec.blocks[skip[0]]["term"]["args"][1])
                rd = [bi for bi in reach if dec.blocks[bi]["term"]["k"] == "call" and callee_is(dec.blocks[bi]["term"], "io::Read::read_exact") and dec.cfg.dominates(skip[0], bi)]
                ok_len = ok_len and bool(rd)
            back = any(li.header in reach for li in loops)
            cx.check("unknown-part-skipped:" + name, ok_len and back, site_of(dec, sb),
                     "the default arm reads exactly the announced number of bytes and the loop continues (unknown parts are skipped, not errors)")
    # endianness agreement across all multi-byte codec calls of the wire formats
    ends = {}
    for b in prog.bodies:
        if b.file not in ("src/messages.rs", "src/crypto/init.rs", "src/crypto/rotate.rs", "src/types.rs"):
            continue
        for bi, t in b.calls():
            c = t.get("callee")
            if c and (c.get("trait") or "").endswith(("ReadBytesExt", "WriteBytesExt")) and c["name"] not in ("read_u8", "write_u8", "read_i8", "write_i8"):
                targs = [prog.ty(x).s for x in c.get("targs", [])]
                bo = [x for x in targs if "Endian" in x]
                ends.setdefault(tuple(bo), []).append(site_of(b, bi))
    cx.check("one-byte-order", len(ends) == 1 and list(ends.keys())[0] == ("byteorder::BigEndian",), None,
             "all multi-byte fields of the wire formats are read and written big-endian (%s)" % {k: len(v) for k, v in ends.items()})
    cx.floor("byte-order-sites", sum(len(v) for v in ends.values()), 15, "multi-byte read/write sites")


def r3_flag_layout(cx):
    prog = cx.prog
    dec = [b for b in prog.bodies if b.path == "messages::NodeInfo::read_addr_list_inner"]
    if len(dec) != 1:
        raise AnchorError("read_addr_list_inner not found")
    dec = dec[0]
    cx.touch(dec)
    # the two loop bounds as functions of the flags byte, compared with the wire layout for all 256 values
    # (v4 count = bits 0-2, v6 count = bits 3-5); any equivalent spelling is accepted
    from ..arith import term_of, evaluate, show, leaves
    from ..lengths import static_len as _sl
    from ..mirutil import iter_source
    flag_params = [l for l in range(1, dec.arg_count + 1) if dec.local_ty(l).k == "int" and dec.local_ty(l).d.get("bits") == 8]
    okm = False
    detail = "flags parameter not found"
    if len(flag_params) == 1:
        spec = {16: lambda f: (f >> 3) & 7, 4: lambda f: f & 7}
        found = {}
        for li in loops_of(dec):
            sizes = [_sl(dec, dec.blocks[bi]["term"]["args"][1]) for bi in li.blocks if dec.blocks[bi]["term"]["k"] == "call" and callee_is(dec.blocks[bi]["term"], "io::Read::read_exact")]
            sizes = [x for x in sizes if x in (4, 16)]
            if len(set(sizes)) != 1:
                continue
            src = iter_source(dec, li)
            if src is None or src.get("p"):
                continue
            d = defuse(dec).single_def(src["l"])
            if not (d and d[0] == "stmt" and d[3]["rv"]["k"] == "aggregate" and d[3]["rv"].get("adt", "").endswith("ops::Range")):
                continue
            lo, hi = d[3]["rv"]["ops"]
            t_hi = term_of(dec, hi, variables={flag_params[0]: "flags"})
            if op_const(lo) != 0 or [x for x in leaves(t_hi) if x[0] not in ("c", "var")]:
                continue
            ok_all = all(evaluate(t_hi, {"flags": f}) == spec[sizes[0]](f) for f in range(256))
            found[sizes[0]] = (ok_all, show(t_hi))
        okm = set(found) == {4, 16} and all(v[0] for v in found.values())
        detail = ", ".join("%d-byte loop runs %s times" % (k, v[1]) for k, v in sorted(found.items()))
    cx.check("decoder-masks", okm, site_of(dec), "decoder: v4 count = flags & 0x07, v6 count = (flags >> 3) & 0x07 for every flags byte (%s)" % detail, how="arith")
    # family order in the decoder: the v6 loop precedes the v4 loop (by the size of the address read)
    from ..lengths import static_len
    order = []
    for li in sorted(loops_of(dec), key=lambda l: l.header):
        for bi in sorted(li.blocks):
            t = dec.blocks[bi]["term"]
            if t["k"] == "call" and callee_is(t, "io::Read::read_exact"):
                order.append(static_len(dec, t["args"][1]))
    first16 = [li for li in loops_of(dec) if any(dec.blocks[bi]["term"]["k"] == "call" and callee_is(dec.blocks[bi]["term"], "io::Read::read_exact") and static_len(dec, dec.blocks[bi]["term"]["args"][1]) == 16 for bi in li.blocks)]
    first4 = [li for li in loops_of(dec) if any(dec.blocks[bi]["term"]["k"] == "call" and callee_is(dec.blocks[bi]["term"], "io::Read::read_exact") and static_len(dec, dec.blocks[bi]["term"]["args"][1]) == 4 for bi in li.blocks)]
    ok = len(first16) == 1 and len(first4) == 1 and dec.cfg.reachable_from([first16[0].header]).__contains__(first4[0].header) and first16[0].header not in dec.cfg.reachable_from([first4[0].header])
    cx.check("decoder-order-v6-then-v4", ok, site_of(dec), "decoder reads the IPv6 addresses before the IPv4 addresses")
    # the peer-list decoder tests the id flag 0x80
    pl = [b for b in prog.bodies if b.path == "messages::NodeInfo::decode_peer_list_part"][0]
    m2 = sorted(op_const(s["rv"]["b"]) for bi, si, s in pl.stmts() if s["k"] == "assign" and s["rv"]["k"] == "binop" and s["rv"]["op"] == "BitAnd")
    cx.check("decoder-id-flag", m2 == [0x80], site_of(pl), "decoder: node id present iff flags & 0x80 (masks %s)" % m2)
    for enc_name, has_id in (("messages::NodeInfo::encode_addrs_part", False), ("messages::NodeInfo::encode_peer_list_part", True)):
        enc = [b for b in prog.bodies if b.path == enc_name]
        if len(enc) != 1:
            raise AnchorError(enc_name)
        enc = enc[0]
        cx.touch(enc)
        an = analyse(enc)
        muls = [(bi, s) for bi, si, s in enc.stmts() if s["k"] == "assign" and s["rv"]["k"] == "binop" and s["rv"]["op"].startswith("Mul")]
        adds = [(bi, s) for bi, si, s in enc.stmts() if s["k"] == "assign" and s["rv"]["k"] == "binop" and s["rv"]["op"].startswith("Add") and enc.place_ty(op_place(s["rv"]["a"])).d.get("bits") == 8 if op_place(s["rv"]["a"]) is not None]
        ok_mul = len(muls) == 1 and op_const(muls[0][1]["rv"]["b"]) == 8
        cx.check("encoder-multiplier:" + enc.name, ok_mul, site_of(enc), "encoder: flags = v6 count * 8 + v4 count")
        if ok_mul:
            bi, s = muls[0]
            st = _state_before(an, enc, bi, s)
            v6 = an.op_itv(st, s["rv"]["a"])
            cx.check("v6-count-fits-3-bits:" + enc.name, v6 is not None and v6[1] <= 7, site_of(enc, span=s["span"]), "the IPv6 count is truncated below 8 before the flags are computed (A9: %s)" % (v6,))
        addv = [x for x in adds if op_const(x[1]["rv"]["b"]) is None]
        if addv:
            bi, s = addv[0]
            st = _state_before(an, enc, bi, s)
            v4 = an.op_itv(st, s["rv"]["b"])
            tot = an.arith("Add", an.op_itv(st, s["rv"]["a"]), v4, None)
            cx.check("v4-count-fits-3-bits:" + enc.name, v4 is not None and v4[1] <= 7 and tot is not None and tot[1] <= 0x3f, site_of(enc, span=s["span"]),
                     "the IPv4 count is truncated below 8; flags without the id bit stay within 0x3f (A9: v4 %s, sum %s)" % (v4, tot))
        else:
            cx.check("v4-count-fits-3-bits:" + enc.name, False, site_of(enc), "addition of the v4 count not found")
        if has_id:
            addc = [x for x in adds if op_const(x[1]["rv"]["b"]) is not None]
            orc = [(bi, s) for bi, si, s in enc.stmts() if s["k"] == "assign" and s["rv"]["k"] == "binop" and s["rv"]["op"] == "BitOr" and op_const(s["rv"]["b"]) is not None]
            idc = addc + orc
            cx.check("encoder-id-flag", len(idc) == 1 and op_const(idc[0][1]["rv"]["b"]) == 0x80, site_of(enc), "encoder sets the id flag by adding / or-ing 0x80 (the counts stay within 0x3f)")
        # family order: the loop writing 16-byte octets precedes the loop writing 4-byte octets
        w16 = _innermost([li for li in loops_of(enc) if _writes_octets(enc, li, "Ipv6Addr")])
        w4 = _innermost([li for li in loops_of(enc) if _writes_octets(enc, li, "Ipv4Addr")])
        ok = bool(w16) and bool(w4)
        for h6 in w16:
            for h4 in w4:
                outer = [li.header for li in loops_of(enc) if h6.header in li.blocks and h4.header in li.blocks and li.header not in (h6.header, h4.header)]
                fwd = h4.header in enc.cfg.reachable_from([h6.header], avoid_blocks=outer)
                bwd = h6.header in enc.cfg.reachable_from([h4.header], avoid_blocks=outer)
                ok = ok and fwd and not bwd
        cx.check("encoder-order-v6-then-v4:" + enc.name, ok, site_of(enc), "encoder writes the IPv6 addresses before the IPv4 addresses")


def _innermost(lis):
    if not lis:
        return []
    m = min(len(li.blocks) for li in lis)
    return [li for li in lis if len(li.blocks) == m]


def _same_outer(body, a, b):
    """Both loops are nested in a common outer loop (then each reaches the other through the outer back edge)."""
    for li in loops_of(body):
        if a.header in li.blocks and b.header in li.blocks and li.header not in (a.header, b.header):
            # order inside one iteration: compare without the outer back edge
            reach = body.cfg.reachable_from([b.header], avoid_blocks=[li.header])
            return a.header not in reach
    return False


def _writes_octets(body, li, which):
    for bi in li.blocks:
        t = body.blocks[bi]["term"]
        if t["k"] == "call" and t.get("callee") and t["callee"]["name"] == "octets" and which in t["callee"]["path"]:
            return True
    return False


def _state_before(an, body, bi, stmt):
    st = an.block_in.get(bi)
    st = st.copy()
    for s2 in body.blocks[bi]["stmts"]:
        if s2 is stmt:
            break
        if s2["k"] == "assign":
            an.assign(st, s2)
    return st


RULES = [
    ("C16.R1", r1_decoders_total, "decoders are total: panic sites discharged, loops make progress, allocation sizes bounded"),
    ("C16.R2", r2_tag_tables, "tag tables of encoder and decoder agree; unknown tags are skipped; one byte order"),
    ("C16.R3", r3_flag_layout, "address-count flag layout agrees between encoder and decoder; counts fit their 3 bits"),
]

LEVEL_TEXT = ("Totality and sibling-agreement rules on MIR: every panic-capable construct reachable from the node-info, handshake, rotation, range and "
              "address decoders is proved unable to fire (interval analysis; two reviewed entries for the fresh payload buffer), every loop consumes "
              "input, every allocation size is bounded by a u8/u16 wire field; the tag sets written by the encoders are handled by the decoders, "
              "whose default arm skips the announced length; masks, multiplier, family order and byte order agree; A9 proves the encoder's counts "
              "fit their three bits after truncation."
              " Loop progress requires the success edge of a reader call; flag layout by term equivalence over all 256 flag bytes; third-party callees reviewed.")
LEVEL_NOTE = "Partial: decides C16.R1-R3. Not decided: decode(encode(x)) = normalise(x) as a value statement."
TECHNIQUE = "interval abstract interpretation (totality, bounded allocation), constant table extraction and encoder/decoder sibling agreement on MIR"
