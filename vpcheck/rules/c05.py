"""C05 - handshake agrees and recovers (DESIGN.md section 4, C05.R1-R6). Partial."""
from ..engine import site_of
from ..facts import op_place, op_local, op_const, AnchorError
from ..callgraph import callee_is
from ..mirutil import (propagates_error, root_place, op_root, deep_root, origin, defuse, calls_in, place_is_field, success_edges, field_writes,
                       aggregates, result_return_sites, dominated_by_ok, calls_on_field, loops_of, iter_source)
from ..region import dominated_by_edges, switch_edges_on_variant, write_summary, edges_where
from ..decision import enum_switch_edges
from .. import anchors as A
from . import c01


def _hi(prog):
    return A.method(prog, "InitState", "handle_init")


def reaching_consts(body, adt, field, prog):
    """Forward dataflow: per block exit, the set of constants last stored to `adt.field` ('entry' = no store yet,
    'unknown' = non-constant store or a call that may store)."""
    writers = set(b.did for (b, bi, k, s) in field_writes(prog, adt, field))
    may_write = set()
    for d in writers:
        may_write.add(d)
    # transitive callers
    changed = True
    while changed:
        changed = False
        for b in prog.bodies:
            if b.did in may_write:
                continue
            if any(c in may_write for _k, c, _bb in prog.cg.callees(b.did)):
                may_write.add(b.did)
                changed = True
    cfg = body.cfg
    out = {}
    inn = {0: {"entry"}}
    work = [0]
    while work:
        bi = work.pop()
        cur = set(inn.get(bi, set()))
        for s in body.blocks[bi]["stmts"]:
            if s["k"] == "assign" and place_is_field(s["place"], adt, field):
                c = op_const(s["rv"]["op"]) if s["rv"]["k"] == "use" else None
                cur = {c if c is not None else "unknown"}
        t = body.blocks[bi]["term"]
        if t["k"] == "call":
            for kind, d in prog.cg.resolve(body, t):
                if d in may_write and d != body.did:
                    # only if self is passed on mutably
                    for a in t["args"]:
                        p = op_place(a)
                        if p is not None and body.place_ty(p).k == "ref" and body.place_ty(p).d.get("mut") and root_place(body, p)["l"] == 1:
                            cur = cur | {"unknown"}
        if out.get(bi) != cur:
            out[bi] = cur
            for s2 in cfg.succ.get(bi, []):
                new = inn.get(s2, set()) | cur
                if new != inn.get(s2):
                    inn[s2] = new
                    work.append(s2)
                elif s2 not in out:
                    work.append(s2)
    return inn, out


def _stage_table(prog):
    st = A.method(prog, "InitMsg", "stage")
    vals = {}
    for (edge, place, ty, val, is_oth) in enum_switch_edges(st):
        pass
    consts = set()
    for bi, si, s in st.stmts():
        if s["k"] == "assign" and s["place"]["l"] == 0 and s["rv"]["k"] == "use" and op_const(s["rv"]["op"]) is not None:
            consts.add(op_const(s["rv"]["op"]))
    return st, consts


def r1_completion_absorbing(cx):
    prog = cx.prog
    hi = _hi(prog)
    cx.touch(hi)
    wtc = prog.const_value("WAITING_TO_CLOSE")
    clo = prog.const_value("CLOSING")
    st, msg_stages = _stage_table(prog)
    cx.check("stage-table", msg_stages == {prog.const_value("STAGE_PING"), prog.const_value("STAGE_PONG"), prog.const_value("STAGE_PENG")}, site_of(st),
             "InitMsg::stage() returns exactly the three message stages %s" % sorted(msg_stages))
    cx.check("terminal-stages-disjoint", not ({wtc, clo} & msg_stages), None, "the terminal stages %s are not message stages %s" % ([wtc, clo], sorted(msg_stages)))
    inn, out = reaching_consts(hi, "InitState", "next_stage", prog)
    sites = [(b, bi, s) for (b, bi, s) in aggregates(prog, "InitResult", "Success") if b.did == hi.did]
    cx.floor("success-sites", len(sites), 2, "InitResult::Success constructions")
    for (b, bi, s) in sites:
        # stage stored when Success is returned: reaching set at the block end (stores after the aggregate in the same block included)
        reach = out.get(bi, set())
        which = "initiator" if any(op_const(o) == 1 for o in s["rv"]["ops"]) else "responder"
        cx.check("absorbing:" + which, bool(reach) and reach <= {wtc, clo}, site_of(b, span=s["span"]),
                 "when Success is returned the stage last stored is terminal (%s), so the object cannot complete again" % sorted(map(str, reach)))
        # under the Pong / Peng arm of the match on the message
        e = switch_edges_on_variant(prog, hi, "InitMsg", ["Pong", "Peng"])
        cx.check("success-in-pong-or-peng-arm:" + which, dominated_by_edges(hi, e, bi), site_of(b, span=s["span"]), "Success is produced only in the pong / peng arm")
    # the mismatch branch: stage != next_stage: every continuing path resets to STAGE_PING after testing stage == STAGE_PING
    ne_edges = set()
    for bi, si, s in hi.stmts():
        if s["k"] == "assign" and s["rv"]["k"] == "binop" and s["rv"]["op"] in ("Ne", "Eq"):
            ra = root_place(hi, op_place(s["rv"]["a"])) if op_place(s["rv"]["a"]) else None
            rb = root_place(hi, op_place(s["rv"]["b"])) if op_place(s["rv"]["b"]) else None
            roots = [r for r in (ra, rb) if r is not None]
            def _is_msg_stage(r):
                d0 = defuse(hi).single_def(r["l"])
                return d0 is not None and d0[0] == "call" and callee_is(d0[2], "InitMsg::stage")
            if any(place_is_field(r, "InitState", "next_stage") for r in roots) and any(not place_is_field(r, "InitState", "next_stage") and _is_msg_stage(r) for r in roots):
                l = s["place"]["l"]
                for sb in hi.cfg.reach:
                    tt = hi.blocks[sb]["term"]
                    if tt["k"] == "switch" and op_local(tt["discr"]) == l:
                        neq_is_true = s["rv"]["op"] == "Ne"
                        for k, v in enumerate(tt["values"]):
                            if (v != 0) == neq_is_true:
                                ne_edges.add(("e", sb, k))
                        if tt["values"] == [0] and neq_is_true:
                            ne_edges.add(("e", sb, 1))
    cx.check("mismatch-test-found", bool(ne_edges), site_of(hi), "handle_init compares the message stage with the expected stage")
    ping = prog.const_value("STAGE_PING")
    resets = [bi for bi, si, s in hi.stmts() if s["k"] == "assign" and place_is_field(s["place"], "InitState", "next_stage") and s["rv"]["k"] == "use" and op_const(s["rv"]["op"]) == ping]
    bad = []
    for e in ne_edges:
        reach = hi.cfg.reachable_from_edge(e, avoid_blocks=resets)
        bad += [bi for (b, bi, s) in sites if bi in reach]
    cx.check("mismatch-returns-or-resets", not bad and bool(resets), site_of(hi), "after a stage mismatch no Success is reachable without first resetting to the ping stage (all other branches return)")


def r2_complementary_roles(cx):
    prog = cx.prog
    hi = _hi(prog)
    sites = [(b, bi, s) for (b, bi, s) in aggregates(prog, "InitResult", "Success") if b.did == hi.did]
    roles = {}
    for (b, bi, s) in sites:
        rv = s["rv"]
        v = op_const(rv["ops"][rv["fields"].index("is_initiator")])
        for var in ("Pong", "Peng"):
            if dominated_by_edges(hi, switch_edges_on_variant(prog, hi, "InitMsg", [var]), bi):
                roles[var] = v
    cx.check("roles", roles == {"Pong": 1, "Peng": 0}, site_of(hi), "is_initiator is true where the pong is handled and false where the peng is handled (%s)" % roles)
    him = A.method(prog, "PeerCrypto", "handle_init_message")
    cx.touch(him)
    rn = [(ci, ct) for ci, ct in him.calls() if callee_is(ct, "RotationState::new")]
    cx.exact("rotation-new", len(rn), 1, "RotationState::new calls in handle_init_message")
    for ci, ct in rn:
        o = origin(him, ct["args"][0])
        ok = False
        if o[0] == "rvalue" and o[2]["rv"]["k"] == "unop" and o[2]["rv"]["op"] == "Not":
            r = root_place(him, op_place(o[2]["rv"]["a"]))
            ok = any(e.get("n") == "is_initiator" for e in r.get("p", []) if e["k"] == "field")
        cx.check("rotation-starts-at-responder", ok, site_of(him, ci), "the rotation initiator flag is the negation of the handshake initiator flag (exactly one end starts rotation)")


def r3_same_inputs(cx):
    prog = cx.prog
    hi = _hi(prog)
    dmk = A.method(prog, "InitState", "derive_master_key")
    sel = A.method(prog, "InitState", "select_algorithm")
    calls = [(ci, ct) for ci, ct in hi.calls() if any(d == dmk.did for _k, d in prog.cg.resolve(hi, ct))]
    cx.exact("derive-calls", len(calls), 2, "derive_master_key calls in handle_init")
    descs = []
    for ci, ct in calls:
        arm = None
        for var in ("Ping", "Pong", "Peng"):
            if dominated_by_edges(hi, switch_edges_on_variant(prog, hi, "InitMsg", [var]), ci):
                arm = var
        # selected algorithm from select_algorithm in the same arm
        sels = [si for si, stt in hi.calls() if any(d == sel.did for _k, d in prog.cg.resolve(hi, stt)) and hi.cfg.dominates(si, ci)]
        a_alg = deep_root(hi, ct["args"][1])
        alg_ok = False
        if a_alg is not None and sels:
            cur = a_alg["l"]
            from ..mirutil import forward_taint
            t = forward_taint(hi, seed_locals=[hi.blocks[sels[-1]]["term"]["dest"]["l"]], mut_args=False)
            alg_ok = cur in t
        priv_ty = hi.place_ty(op_place(ct["args"][2])).s if op_place(ct["args"][2]) else ""
        pub = deep_root(hi, ct["args"][3])
        pub_ok = pub is not None and any(e.get("n") == "ecdh_public_key" for e in pub.get("p", []) if e["k"] == "field")
        descs.append((arm, alg_ok, "EphemeralPrivateKey" in priv_ty, pub_ok))
        cx.check("derive-roles:%s" % arm, alg_ok and "EphemeralPrivateKey" in priv_ty and pub_ok, site_of(hi, ci),
                 "derive_master_key(selected cipher, own ephemeral secret, peer's ephemeral public key from the message)")
    cx.check("both-arms", sorted(d[0] or "?" for d in descs) == ["Ping", "Pong"], site_of(hi), "the key is derived in the ping arm (responder) and in the pong arm (initiator)")


def _only_fatal_errors(prog, body, op, sel, depth):
    """True if every Err the operand can hold is CryptoInitFatal: follows `?` (Try::branch / from_residual),
    map_err closures, select_algorithm's own errors, and all definitions of a multiply-defined local (the return
    slot of a spliced helper)."""
    if depth > 10:
        return False
    o = origin(body, op)
    if o[0] == "call":
        t = o[2]
        if callee_is(t, "ops::Try::branch") or callee_is(t, "FromResidual>::from_residual", "from_residual"):
            return _only_fatal_errors(prog, body, t["args"][0], sel, depth + 1)
        if callee_is(t, "result::Result::map_err"):
            cl = op_root(body, t["args"][1])
            d = defuse(body).single_def(cl["l"]) if cl is not None else None
            if d and d[0] == "stmt" and d[3]["rv"].get("agg") == "closure":
                cb = prog.by_did.get(d[3]["rv"]["closure_did"])
                if cb is None:
                    return False
                ags = [s for bi, si, s in cb.stmts() if s["k"] == "assign" and s["rv"]["k"] == "aggregate" and s["rv"].get("adt", "").endswith("error::Error")]
                return bool(ags) and all(s["rv"]["variant"] == "CryptoInitFatal" for s in ags)
            return False
        if any(d == sel.did for _k, d in prog.cg.resolve(body, t)):
            errs = [s for (b2, bi2, s) in aggregates(prog, "Error") if b2.did == sel.did]
            return bool(errs) and all(s["rv"]["variant"] == "CryptoInitFatal" for s in errs)
        return False
    if o[0] == "rvalue":
        rv = o[2]["rv"]
        if rv["k"] == "aggregate" and rv.get("adt", "").endswith("result::Result"):
            if rv.get("variant") == "Ok":
                return True
            o2 = origin(body, rv["ops"][0])
            return o2[0] == "rvalue" and o2[2]["rv"].get("variant") == "CryptoInitFatal"
        if rv["k"] == "aggregate" and rv.get("adt", "").endswith("error::Error"):
            return rv.get("variant") == "CryptoInitFatal"
        return False
    if o[0] == "place":
        pl = o[1]
        l = pl["l"]
        if 1 <= l <= body.arg_count:
            return False
        defs = defuse(body).defs.get(l, [])
        if not defs:
            return False
        for d in defs:
            if d[0] == "call":
                t = d[2]
                fake = {"k": "copy", "place": {"l": l}}
                if callee_is(t, "ops::Try::branch") or callee_is(t, "FromResidual>::from_residual", "from_residual"):
                    if not _only_fatal_errors(prog, body, t["args"][0], sel, depth + 1):
                        return False
                    continue
                if any(dd == sel.did for _k, dd in prog.cg.resolve(body, t)):
                    errs = [s for (b2, bi2, s) in aggregates(prog, "Error") if b2.did == sel.did]
                    if not (errs and all(s["rv"]["variant"] == "CryptoInitFatal" for s in errs)):
                        return False
                    continue
                if callee_is(t, "result::Result::map_err"):
                    # re-use the single-definition path through a temporary operand
                    cl = op_root(body, t["args"][1])
                    dd = defuse(body).single_def(cl["l"]) if cl is not None else None
                    okc = False
                    if dd and dd[0] == "stmt" and dd[3]["rv"].get("agg") == "closure":
                        cb = prog.by_did.get(dd[3]["rv"]["closure_did"])
                        if cb is not None:
                            ags = [s for bi, si, s in cb.stmts() if s["k"] == "assign" and s["rv"]["k"] == "aggregate" and s["rv"].get("adt", "").endswith("error::Error")]
                            okc = bool(ags) and all(s["rv"]["variant"] == "CryptoInitFatal" for s in ags)
                    if not okc:
                        return False
                    continue
                return False
            st = d[3]
            rv = st["rv"]
            if rv["k"] == "aggregate" and rv.get("adt", "").endswith("result::Result"):
                if rv.get("variant") == "Ok":
                    continue
                o2 = origin(body, rv["ops"][0])
                if not (o2[0] == "rvalue" and o2[2]["rv"].get("variant") == "CryptoInitFatal"):
                    return False
                continue
            if rv["k"] == "use" and rv["op"].get("k") in ("copy", "move"):
                if rv["op"]["place"]["l"] == l:
                    return False
                if not _only_fatal_errors(prog, body, rv["op"], sel, depth + 1):
                    return False
                continue
            return False
        return True
    return False


def _fatal_only_returns(prog, body, start_blocks, avoid_blocks):
    """Return sites reachable from start avoiding avoid_blocks that are not provably CryptoInitFatal errors."""
    reach = body.cfg.reachable_from(start_blocks, avoid_blocks=avoid_blocks)
    bad = []
    sel = A.method(prog, "InitState", "select_algorithm")
    for kind, rbi, info in result_return_sites(body):
        if rbi not in reach:
            continue
        if kind == "err":
            o = origin(body, info["rv"]["ops"][0])
            if o[0] == "rvalue" and o[2]["rv"].get("variant") == "CryptoInitFatal":
                continue
            bad.append((rbi, kind))
        elif kind == "residual":
            # `?` on a value: every error that value can hold must be CryptoInitFatal
            ok = _only_fatal_errors(prog, body, info["args"][0], sel, 0)
            if not ok:
                bad.append((rbi, kind))
        else:
            bad.append((rbi, kind))
    return bad


def r4_stage_key_invariant(cx):
    prog = cx.prog
    hi = _hi(prog)
    pong = prog.const_value("STAGE_PONG")
    # (a) every store of STAGE_PONG follows a store of Some(..) to ecdh_private_key in the same function
    w = [(b, bi, k, s) for (b, bi, k, s) in field_writes(prog, "InitState", "next_stage") if k == "assign" and s.get("rv", {}).get("k") == "use" and op_const(s["rv"]["op"]) == pong]
    cx.floor("pong-stage-stores", len(w), 1, "stores of STAGE_PONG to next_stage")
    for (b, bi, k, s) in w:
        cx.touch(b)
        somes = []
        for bj, sj, s2 in b.stmts():
            if s2["k"] == "assign" and place_is_field(s2["place"], "InitState", "ecdh_private_key"):
                o = origin(b, s2["rv"]["op"]) if s2["rv"]["k"] == "use" else None
                if o and o[0] == "rvalue" and o[2]["rv"].get("variant") == "Some":
                    somes.append(bj)
        cx.check("pong-stage-implies-key:" + b.name, any(b.cfg.dominates(x, bi) for x in somes), site_of(b, span=s["span"]),
                 "the pong-expecting stage is entered only after the ephemeral secret was stored")
        cx.check("pong-stage-only-in-send_ping", b.name == "send_ping", site_of(b, span=s["span"]), "only send_ping enters the pong-expecting stage")
    # (b) every take()/None store on the key is followed by a non-PONG stage store before every non-fatal return
    clears = []
    for bi, si, s in hi.stmts():
        if s["k"] == "assign" and place_is_field(s["place"], "InitState", "ecdh_private_key"):
            o = origin(hi, s["rv"]["op"]) if s["rv"]["k"] == "use" else None
            if o and o[0] == "rvalue" and o[2]["rv"].get("variant") == "None":
                clears.append((bi, "store None"))
    for ci, ct in hi.calls():
        if callee_is(ct, "option::Option::take") and (lambda r: r is not None and place_is_field(r, "InitState", "ecdh_private_key"))(deep_root(hi, ct["args"][0])):
            clears.append((ci, "take()"))
    cx.floor("key-clears", len(clears), 2, "places where the ephemeral secret is taken / cleared in handle_init")
    nonpong = [bi for bi, si, s in hi.stmts() if s["k"] == "assign" and place_is_field(s["place"], "InitState", "next_stage") and s["rv"]["k"] == "use" and op_const(s["rv"]["op"]) not in (None, pong)]
    inn, out = reaching_consts(hi, "InitState", "next_stage", prog)
    for bi, what in clears:
        # either the stage last stored at this point is already a non-PONG constant, or every non-fatal return passes such a store
        already = inn.get(bi, set()) and inn[bi] <= set(c for c in inn[bi] if isinstance(c, int) and c != pong)
        bad = [] if already else _fatal_only_returns(prog, hi, hi.cfg.succ.get(bi, []), nonpong)
        cx.check("key-cleared-implies-stage-left:%s" % what, not bad, site_of(hi, bi),
                 "after the ephemeral secret is %s every non-fatal return has a non-pong stage stored (so the pong arm's unwrap cannot meet None)" % what)
    # fatal errors discard the object: C01.R4 (pending-remove-under-fatal); and objects inside a peer never expect a pong
    sp = A.method(prog, "InitState", "send_ping")
    callers = sorted(set(prog.by_did[c].path for (c, bb, k) in prog.cg.callers.get(sp.did, [])))
    cx.check("send_ping-callers", callers == ["crypto::common::PeerCrypto::<P>::initialize"], None, "send_ping is called only by PeerCrypto::initialize (found %s)" % callers)
    ini = A.method(prog, "PeerCrypto", "initialize")
    c2 = sorted(set(prog.by_did[c].name for (c, bb, k) in prog.cg.callers.get(ini.did, [])))
    cx.check("initialize-callers", c2 == ["connect_sock"], None, "initialize is called only by connect_sock on a fresh object stored in pending_inits (found %s)" % c2)


def r5_retransmission_wiring(cx):
    prog = cx.prog
    es = A.method(prog, "InitState", "every_second")
    cx.touch(es)
    mx = prog.const_value("MAX_FAILED_RETRIES")
    rep = [ci for ci, ct in es.calls() if callee_is(ct, "InitState::repeat_last_message")]
    cx.exact("repeat-sites", len(rep), 1, "repeat_last_message calls in InitState::every_second")
    lt_edges = edges_where(es, lambda r: place_is_field(r, "InitState", "failed_retries"), "Lt", mx)
    for ci in rep:
        cx.check("repeat-while-retries-left", dominated_by_edges(es, lt_edges, ci), site_of(es, ci), "the last message is repeated while failed_retries < MAX_FAILED_RETRIES (%s)" % mx)
    fat = [(b, bi, s) for (b, bi, s) in aggregates(prog, "Error", "CryptoInitFatal") if b.did == es.did]
    cx.exact("timeout-error", len(fat), 1, "CryptoInitFatal constructions in every_second")
    # PeerCrypto::handle_init_message hands the core over before any Initialized* is returned
    him = A.method(prog, "PeerCrypto", "handle_init_message")
    st = [bi for bi, si, s in him.stmts() if s["k"] == "assign" and place_is_field(s["place"], "PeerCrypto", "core")]
    cx.exact("core-handover", len(st), 1, "stores to PeerCrypto.core in handle_init_message")
    for var in ("Initialized", "InitializedWithReply"):
        for (b, bi, s) in aggregates(prog, "MessageResult", var):
            if b.did == him.did:
                cx.check("core-before-" + var, any(him.cfg.dominates(x, bi) for x in st), site_of(b, span=s["span"]), "the negotiated core is taken over before %s is returned" % var)
    for x in st:
        s = [s2 for s2 in him.blocks[x]["stmts"] if s2["k"] == "assign" and place_is_field(s2["place"], "PeerCrypto", "core")][0]
        o = origin(him, s["rv"]["op"]) if s["rv"]["k"] == "use" else None
        cx.check("core-from-take_core", o is not None and o[0] == "call" and callee_is(o[2], "InitState::take_core"), site_of(him, x), "the core installed is the one negotiated by this handshake (take_core)")
    # crypto_housekeep deletes pending entries whose tick failed
    ch = A.cloud_fn(prog, "crypto_housekeep")
    rem = calls_on_field(prog, ("collections::HashMap::remove",), "GenericCloud", "pending_inits", bodies=[ch])
    cx.floor("pending-removals", len(rem), 1, "pending_inits.remove in crypto_housekeep")
    pes = A.method(prog, "PeerCrypto", "every_second")
    cx.touch(pes)
    # ... and the give-up error of InitState::every_second must reach it: PeerCrypto::every_second propagates it
    inner = [bi for bi, ct in pes.calls() if any(d == es.did for _k, d in prog.cg.resolve(pes, ct))]
    cx.floor("tick-calls", len(inner), 1, "InitState::every_second calls in PeerCrypto::every_second")
    for bi in inner:
        okp, why = propagates_error(pes, bi)
        cx.check("tick-error-propagates", okp, site_of(pes, bi), "the handshake's give-up error is returned to the owner of the pending entry: " + why)
    ok = False
    for li in loops_of(ch):
        src = iter_source(ch, li)
        if src is not None and place_is_field(src, "GenericCloud", "pending_inits"):
            ticks = [bi for bi in li.blocks if ch.blocks[bi]["term"]["k"] == "call" and any(d == pes.did for _k, d in prog.cg.resolve(ch, ch.blocks[bi]["term"]))]
            for tb in ticks:
                oc = success_edges(ch, tb)
                pushes = [bi for bi in li.blocks if ch.blocks[bi]["term"]["k"] == "call" and callee_is(ch.blocks[bi]["term"], "smallvec::SmallVec::push")]
                if any(dominated_by_edges(ch, oc.err_edges, p) for p in pushes) and oc.err_edges:
                    ok = True
    cx.check("failed-handshakes-collected", ok, site_of(ch), "a pending handshake whose tick returned Err is collected for deletion")


def r6_dual_open(cx):
    prog = cx.prog
    hi = _hi(prog)
    cmps = []
    for ci, ct in hi.calls():
        c = ct.get("callee") or {}
        if c.get("name") in ("gt", "lt", "ge", "le") and (c.get("trait") or "").endswith("cmp::PartialOrd") and len(ct["args"]) == 2:
            rs = [deep_root(hi, a) for a in ct["args"]]
            own = [r is not None and r["l"] == 1 and place_is_field(r, "InitState", "salted_node_id_hash") for r in rs]
            # restrict to the comparison used as a branch condition (not the half flag passed to CryptoCore::new)
            oc = success_edges(hi, ci)
            if any(own) and not all(own) and (oc.ok_edges or oc.err_edges):
                cmps.append((ci, c["name"], oc))
    cx.exact("role-switch-comparisons", len(cmps), 1, "order comparisons of the two salted ids used as a branch condition")
    NEG = {"gt": "le", "lt": "ge", "ge": "lt", "le": "gt"}
    variant_edges = switch_edges_on_variant(prog, hi, "InitMsg", ["Ping", "Pong", "Peng"])
    for ci, name, oc in cmps:
        # each side of the branch with the relation that holds on it (the false side holds the negation)
        sides = []
        for edges, other, rel in ((oc.ok_edges, oc.err_edges, name), (oc.err_edges, oc.ok_edges, NEG[name])):
            stores = set()
            for bi, si, s in hi.stmts():
                if s["k"] == "assign" and s["place"].get("p") and dominated_by_edges(hi, edges, bi) and not dominated_by_edges(hi, other, bi):
                    r = root_place(hi, s["place"])
                    if r["l"] == 1 and not dominated_by_edges(hi, variant_edges, bi):
                        # stores after the match on the message (dominated by a variant edge) belong to the main flow
                        for f in ("next_stage", "last_message", "ecdh_private_key"):
                            if place_is_field(r, "InitState", f):
                                stores.add(f)
            cont = [(b, bi, s) for (b, bi, s) in aggregates(prog, "InitResult", "Continue") if b.did == hi.did and dominated_by_edges(hi, edges, bi)
                    and not dominated_by_edges(hi, other, bi) and not dominated_by_edges(hi, variant_edges, bi)]
            sides.append((rel, stores, cont))
        yielding = [x for x in sides if x[1]]
        keeping = [x for x in sides if not x[1]]
        cx.check("strict-order", len(yielding) == 1 and yielding[0][0] in ("gt", "lt"), site_of(hi, ci),
                 "the role switch (the branch that resets the handshake) is taken under a strict order relation of the two salted ids (a non-strict one would make both ends yield on equal ids): relation on the yielding side: %s" % [x[0] for x in yielding])
        got = sorted(yielding[0][1]) if len(yielding) == 1 else []
        cx.check("yield-resets-all", got == ["ecdh_private_key", "last_message", "next_stage"], site_of(hi, ci),
                 "the yielding end resets stage, last message and ephemeral secret together (found %s)" % got)
        cx.check("winner-ignores-ping", len(keeping) == 1 and len(keeping[0][2]) >= 1, site_of(hi, ci),
                 "the end that keeps the initiator role ignores the crossing ping (returns Continue without state change)")


RULES = [
    ("C05.R1", r1_completion_absorbing, "completion is absorbing: Success returns with a terminal stage stored"),
    ("C05.R2", r2_complementary_roles, "complementary roles: initiator at pong, responder at peng; rotation starts at exactly one end"),
    ("C05.R3", r3_same_inputs, "both arms derive the key from the same kinds of inputs"),
    ("C05.R4", r4_stage_key_invariant, "stage <-> ephemeral key invariant (discharges the pong arm's unwrap)"),
    ("C05.R5", r5_retransmission_wiring, "retransmission and hand-over wiring"),
    ("C05.R6", r6_dual_open, "dual open: strict comparison decides the single yielding end, which resets all three fields"),
]

LEVEL_TEXT = ("Static necessary conditions on MIR for 'never both complete differently, complete at most once': reaching-definition analysis shows that Success is "
              "returned only with a terminal stage stored (disjoint from the message stages), in the pong/peng arms with complementary initiator flags; "
              "both arms feed select_algorithm and derive_master_key with the same roles; the stage/ephemeral-key invariant; retransmission while retries "
              "remain and core hand-over before Initialized; the dual-open role switch is a strict comparison of the two salted ids."
              " Error discipline on the recovery chain: the give-up error of the handshake tick is propagated to the owner of the pending entry, which deletes it.")
LEVEL_NOTE = ("Partial (the smaller part): agreement and recovery over all interleavings of loss, duplication, reordering and dual open, and the bounded reconnection "
              "time, quantify over the product of two retransmitting state machines' histories and are not decided by this family.")
TECHNIQUE = "MIR reaching definitions on a state field, control dependence on variant/comparison edges, sibling agreement"
