"""C15 - silent peers time out; healthy peers never do (DESIGN.md section 4, C15.R1-R5). Partial."""
from ..engine import site_of
from ..facts import op_place, op_local, op_const, AnchorError
from ..callgraph import callee_is
from ..mirutil import (root_place, op_root, deep_root, origin, defuse, calls_in, forward_taint, field_writes, aggregates,
                       place_is_field, loops_of, iter_source, success_edges, calls_on_field)
from ..region import switch_edges_on_variant, dominated_by_edges
from ..panics import sites_in
from ..intervals import discharge, check_field_invariants, analyse
from .. import anchors as A
from .c12 import peer_remove_sites


def _schedule_functions(prog):
    return [
        A.method(prog, "config::Config", "get_keepalive"),
        A.cloud_fn(prog, "housekeep"),
        A.cloud_fn(prog, "reconnect_to_peers"),
        A.cloud_fn(prog, "update_peer_info"),
        A.cloud_fn(prog, "add_new_peer"),
        A.cloud_fn(prog, "new"),
    ]


def r1_schedule_arithmetic(cx):
    prog = cx.prog
    n = 0
    for b in _schedule_functions(prog):
        cx.touch(b)
        bodies = [b] + prog.closures_of(b)
        for bb in bodies:
            for s in sites_in(bb):
                if s.kind != "assert":
                    continue
                n += 1
                ok, why = discharge(s)
                cx.check("arith:%s:%s" % (b.name, s.sig), ok, s.where(),
                         "schedule arithmetic cannot fault for any configurable timeout / keepalive value: " + why)
    cx.floor("arith-sites", n, 8, "arithmetic checks in the timeout / announcement / back-off computations")


def r2_both_bounds_feed_interval(cx):
    prog = cx.prog
    hk = A.cloud_fn(prog, "housekeep")
    cx.touch(hk)
    stores = [(bi, s) for bi, si, s in hk.stmts() if s["k"] == "assign" and place_is_field(s["place"], "GenericCloud", "next_peers")]
    cx.exact("next_peers-stores", len(stores), 1, "stores to next_peers in housekeep")
    # sources: own keepalive (update_freq) and the peers' advertised timeouts (peer_timeout via the closure over peers)
    t_freq = forward_taint(hk, seed_place_pred=lambda p: place_is_field(root_place(hk, p), "GenericCloud", "update_freq"), mut_args=False)
    t_peers = forward_taint(hk, seed_place_pred=lambda p: place_is_field(root_place(hk, p), "GenericCloud", "peers"), mut_args=False)
    now_calls = [ct["dest"]["l"] for ci, ct in hk.calls() if A.is_trait_call(ct, "util::TimeSource", "now")]
    t_now = forward_taint(hk, seed_locals=now_calls, mut_args=False)
    for bi, s in stores:
        src = s["rv"]["op"] if s["rv"]["k"] == "use" else None
        l = root_place(hk, op_place(src))["l"] if src is not None and op_place(src) is not None else None
        cx.check("interval-from-own-keepalive", l in t_freq, site_of(hk, span=s["span"]), "the own keepalive setting flows into the next announcement time")
        cx.check("interval-from-advertised-timeouts", l in t_peers, site_of(hk, span=s["span"]), "the peers' advertised timeouts flow into the next announcement time")
        cx.check("interval-from-now", l in t_now, site_of(hk, span=s["span"]), "the next announcement time is relative to now")
    # both through a minimum
    mins = [(ci, ct) for ci, ct in hk.calls() if callee_is(ct, "cmp::min")]
    ok = False
    for ci, ct in mins:
        ls = [root_place(hk, op_place(a))["l"] if op_place(a) is not None else None for a in ct["args"]]
        if any(x in t_freq for x in ls) and any(x in t_peers for x in ls):
            ok = True
    cx.check("minimum-of-both", ok, site_of(hk), "the interval is the minimum of the own keepalive and a value derived from the smallest advertised timeout")
    # the smallest advertised timeout: Iterator::min over peers mapped to peer_timeout
    itmin = [(ci, ct) for ci, ct in hk.calls() if callee_is(ct, "iter::Iterator::min")]
    okc = False
    for cb in prog.closures_of(hk):
        for bi, si, s in cb.stmts():
            if s["k"] == "assign" and s["rv"]["k"] == "use" and op_place(s["rv"]["op"]) is not None and place_is_field(root_place(cb, op_place(s["rv"]["op"])), "PeerData", "peer_timeout"):
                okc = True
    cx.check("smallest-advertised", len(itmin) == 1 and okc, site_of(hk), "the bound is Iterator::min over every peer's advertised peer_timeout")
    # ... computed afresh for every announcement: the scan over the current peers dominates the store of the next
    # announcement time (a minimum cached under some key - peer count, a dirty flag - can be stale)
    for bi, s in stores:
        cx.check("smallest-advertised-is-fresh", bool(itmin) and all(hk.cfg.dominates(ci, bi) for ci, _ct in itmin), site_of(hk, span=s["span"]),
                 "the minimum over the peers' advertised timeouts is recomputed on every path that schedules the next announcement")
    # PeerData.peer_timeout comes from the peer's node info
    anp = A.cloud_fn(prog, "add_new_peer")
    for (b, bi, s) in aggregates(prog, "PeerData"):
        rv = s["rv"]
        op = rv["ops"][rv["fields"].index("peer_timeout")]
        o = origin(b, op)
        ok2 = False
        if o[0] == "call" and callee_is(o[2], "option::Option::unwrap_or"):
            r = deep_root(b, o[2]["args"][0])
            ok2 = r is not None and place_is_field(r, "NodeInfo", "peer_timeout")
        cx.check("advertised-timeout-from-node-info:" + b.name, ok2, site_of(b, span=s["span"]), "PeerData.peer_timeout is the peer's announced timeout (or the default)")


def r3_who_may_refresh(cx):
    prog = cx.prog
    w = field_writes(prog, "PeerData", "timeout")
    fns = sorted(set(b.name for (b, bi, k, s) in w))
    cx.check("timeout-writers", fns == ["update_peer_info"], None, "PeerData.timeout is stored only by update_peer_info (found %s)" % fns)
    ag = aggregates(prog, "PeerData")
    cx.check("peerdata-ctor", sorted(set(b.name for (b, bi, s) in ag)) == ["add_new_peer"], None, "PeerData is constructed only in add_new_peer")
    upi = A.cloud_fn(prog, "update_peer_info")
    callers = [(prog.by_did[c], bb) for (c, bb, kind) in prog.cg.callers.get(upi.did, [])]
    cx.exact("update_peer_info-callers", len(callers), 3, "call sites of update_peer_info")
    ni = prog.const_value("MESSAGE_TYPE_NODE_INFO")
    ka = prog.const_value("MESSAGE_TYPE_KEEPALIVE")
    for (cb, bb) in callers:
        cx.touch(cb)
        if cb.name == "add_new_peer":
            cx.check("refresh-site:add_new_peer", True, site_of(cb, bb), "a new peer is initialised from its node info", how="table")
            continue
        ok = False
        arm = None
        for sb in cb.cfg.reach:
            tt = cb.blocks[sb]["term"]
            if tt["k"] != "switch":
                continue
            p = op_place(tt["discr"])
            if p is None:
                continue
            r = root_place(cb, p)
            if any(e["k"] == "downcast" and e.get("v") == "Message" for e in r.get("p", [])):
                for k, v in enumerate(tt["values"]):
                    if v in (ni, ka) and dominated_by_edges(cb, {("e", sb, k)}, bb):
                        ok = True
                        arm = v
        cx.check("refresh-site:%s:%s" % (cb.name, {ni: "NODE_INFO", ka: "KEEPALIVE"}.get(arm, "?")), ok, site_of(cb, bb),
                 "update_peer_info is reached only from the node-info and keepalive arms (payload traffic does not keep a peer alive)")
    # the new expiry is now + configured peer timeout
    for (b, bi, k, s) in w:
        if k != "assign":
            cx.check("timeout-store-kind", False, site_of(b, bi), "PeerData.timeout is borrowed mutably")
            continue
        l = None
        if s["rv"]["k"] == "use" and op_place(s["rv"]["op"]) is not None:
            l = root_place(b, op_place(s["rv"]["op"]))["l"]
        now_calls = [ct["dest"]["l"] for ci, ct in b.calls() if A.is_trait_call(ct, "util::TimeSource", "now")]
        t1 = forward_taint(b, seed_locals=now_calls, mut_args=False)
        t2 = forward_taint(b, seed_place_pred=lambda p: place_is_field(root_place(b, p), "Config", "peer_timeout"), mut_args=False)
        cx.check("expiry=now+peer-timeout", l in t1 and l in t2, site_of(b, span=s["span"]), "the refreshed expiry is now + the configured peer timeout")
        # ... the *own* timeout: what the peer advertises bounds the peer's patience with us, not ours with it
        t3 = forward_taint(b, seed_place_pred=lambda p: place_is_field(root_place(b, p), "PeerData", "peer_timeout") or place_is_field(root_place(b, p), "NodeInfo", "peer_timeout"), mut_args=False)
        cx.check("expiry-uses-own-timeout-only", l is not None and l not in t3, site_of(b, span=s["span"]),
                 "the expiry of a peer does not depend on the timeout that peer advertises (last refresh + own peer timeout)")
    wadv = field_writes(prog, "PeerData", "peer_timeout")
    cx.check("advertised-timeout-immutable", not wadv, site_of(wadv[0][0], wadv[0][1]) if wadv else None,
             "PeerData.peer_timeout is set when the peer is added and never rewritten (found %d store(s))" % len(wadv))


def r4_expiry_each_tick(cx):
    prog = cx.prog
    hk = A.cloud_fn(prog, "housekeep")
    cx.touch(hk)
    # sweep over all peers comparing expiry with now
    sweep = None
    for li in loops_of(hk):
        src = iter_source(hk, li)
        if src is not None and place_is_field(src, "GenericCloud", "peers"):
            cmp_ok = False
            for bi in li.blocks:
                for s in hk.blocks[bi]["stmts"]:
                    if s["k"] == "assign" and s["rv"]["k"] == "binop" and s["rv"]["op"] in ("Lt", "Le", "Gt", "Ge"):
                        for o in (s["rv"]["a"], s["rv"]["b"]):
                            p = op_place(o)
                            if p is not None and place_is_field(root_place(hk, p), "PeerData", "timeout"):
                                cmp_ok = True
            if cmp_ok:
                sweep = li
    ok_sweep = sweep is not None and not sweep.other_exits
    if not ok_sweep:
        # internal iteration: self.peers.iter().filter(|(_, data)| data.timeout < now).map(..).collect()
        from ..mirutil import adapter_closures
        for (cb, adapter, src, short, complete) in adapter_closures(prog, hk):
            if adapter not in ("filter", "filter_map") or short or not complete:
                continue
            if src is None or not place_is_field(src, "GenericCloud", "peers"):
                continue
            for bi, si, s in cb.stmts():
                if s["k"] == "assign" and s["rv"]["k"] == "binop" and s["rv"]["op"] in ("Lt", "Le", "Gt", "Ge"):
                    for o in (s["rv"]["a"], s["rv"]["b"]):
                        p = op_place(o)
                        if p is not None and place_is_field(root_place(cb, p), "PeerData", "timeout"):
                            ok_sweep = True
    cx.check("expiry-sweep", ok_sweep, site_of(hk), "housekeep compares every peer's expiry with now (complete sweep)")
    rem = [(b, bi, t) for (b, bi, t) in peer_remove_sites(prog) if b.did == hk.did]
    cx.exact("timeout-removal", len(rem), 1, "peers.remove in housekeep")
    cs = A.cloud_fn(prog, "connect_sock")
    for (b, bi, t) in rem:
        redial = [ci for ci, ct in hk.calls() if any(d == cs.did for _k, d in prog.cg.resolve(hk, ct))]
        key = deep_root(hk, t["args"][1])
        ok = False
        for ci in redial:
            a = deep_root(hk, hk.blocks[ci]["term"]["args"][1])
            if a is not None and key is not None and a["l"] == key["l"]:
                reach = hk.cfg.reachable_from(hk.cfg.succ.get(bi, []), avoid_blocks=[ci])
                if bi not in reach and not any(x in hk.cfg.exits for x in reach):
                    ok = True
        cx.check("expired-peer-redialled", ok, site_of(hk, bi), "every removed (expired) peer is re-dialled before the next one is handled")
    # the expiry sweep is unconditional in housekeep and housekeep is driven by run() once next_housekeep passed
    run = A.cloud_fn(prog, "run")
    calls = [ci for ci, ct in run.calls() if any(d == hk.did for _k, d in prog.cg.resolve(run, ct))]
    cx.exact("housekeep-driver", len(calls), 1, "calls of housekeep in run()")
    # configured peers are retried indefinitely: reconnect entries are dropped only through final_timeout
    rp = A.cloud_fn(prog, "reconnect_to_peers")
    hcalls = [ci for ci, ct in hk.calls() if any(d == rp.did for _k, d in prog.cg.resolve(hk, ct))]
    cx.exact("reconnect-each-tick", len(hcalls), 1, "calls of reconnect_to_peers in housekeep")
    shr = calls_on_field(prog, ("smallvec::SmallVec::retain", "smallvec::SmallVec::clear", "smallvec::SmallVec::remove", "smallvec::SmallVec::swap_remove",
                                "smallvec::SmallVec::pop", "smallvec::SmallVec::truncate", "smallvec::SmallVec::drain"), "GenericCloud", "reconnect_peers")
    names = sorted(set((b.name, t["callee"]["name"]) for (b, bi, t) in shr))
    cx.check("retry-forever", names == [("reconnect_to_peers", "retain")], None,
             "the reconnect list only shrinks through the final_timeout filter in reconnect_to_peers (found %s)" % names)
    w = field_writes(prog, "ReconnectEntry", "final_timeout")
    cx.check("final_timeout-never-set", not w, site_of(w[0][0], w[0][1]) if w else None, "final_timeout is never set after construction (configured peers have None)")


def r5_backoff_capped(cx):
    prog = cx.prog
    res = [r for r in check_field_invariants(prog) if r[1] == "ReconnectEntry"]
    cx.floor("backoff-guarantee-points", len(res), 6, "constructions / observation points of ReconnectEntry.timeout and .tries")
    for ok, adt, field, b, bi, v in res:
        cx.check("invariant:%s.%s:%s" % (adt, field, b.path), ok, site_of(b, bi),
                 "%s.%s stays within its bound at every construction and whenever the entry can be observed again (value %s)" % (adt, field, v))
    mx = prog.const_value("MAX_RECONNECT_INTERVAL")
    cx.check("cap-is-one-hour", mx == 3600, None, "MAX_RECONNECT_INTERVAL is 3600 s (found %s)" % mx)
    # next = now + timeout
    rp = A.cloud_fn(prog, "reconnect_to_peers")
    st = [(bi, s) for bi, si, s in rp.stmts() if s["k"] == "assign" and place_is_field(s["place"], "ReconnectEntry", "next")]
    cx.floor("next-stores", len(st), 2, "stores to ReconnectEntry.next")
    an = analyse(rp)
    worst = 0
    for bi, s in st:
        # delay = stored value - now: bounded by 3600 through the invariant (A9 on the addition's operands)
        pass
    adds = [(s2.bi, s2) for s2 in sites_in(rp) if s2.kind == "assert" and s2.sig == "overflow:Add"]
    for bi, s2 in adds:
        stt = an.state_at(bi)
        b_itv = an.op_itv(stt, s2.term["msg"]["b"]) if stt is not None else None
        if b_itv is not None and b_itv[1] > worst and b_itv[1] < 1 << 40:
            worst = b_itv[1]
    cx.check("delay-at-most-cap", worst <= 3600, site_of(rp), "every delay added to `now` in reconnect_to_peers is at most 3600 s (A9 upper bound %s)" % worst)


RULES = [
    ("C15.R1", r1_schedule_arithmetic, "schedule arithmetic cannot fault for any configurable value (A9)"),
    ("C15.R2", r2_both_bounds_feed_interval, "own keepalive and smallest advertised timeout both feed the announcement interval through min"),
    ("C15.R3", r3_who_may_refresh, "who may refresh a peer: node-info and keepalive arms only"),
    ("C15.R4", r4_expiry_each_tick, "expiry sweep, removal and re-dial each tick; configured peers retried forever"),
    ("C15.R5", r5_backoff_capped, "back-off interval invariant [1, 3600] and counter invariant [0, 10] (assume-guarantee)"),
]

LEVEL_TEXT = ("Interval abstract interpretation and wiring rules on MIR: every overflow/underflow/division check in the keepalive, announcement-interval, "
              "expiry and back-off computations is proved for all u16/u32 settings; the interval is the minimum of the own keepalive and a value derived "
              "from the smallest advertised timeout; only node-info and keepalive messages refresh a peer; expired peers are removed, cleared and "
              "re-dialled; the back-off interval provably stays within [1, 3600] s between observations and configured entries are never dropped."
              " The minimum over the peers' advertised timeouts is recomputed for every announcement (the scan dominates the store).")
LEVEL_NOTE = ("Partial: decides C15.R1-R5. Not decided: 'strictly shorter than the smallest advertised timeout' as a relation over all value pairs, simulated "
              "meshes, the 48 h back-off schedule. Assumption: the clock value stays below 2^62 s.")
TECHNIQUE = "interval abstract interpretation with field invariants (assume-guarantee), taint, who-may-write, loop-exit classification on MIR"
