"""C12 - routes track peers (DESIGN.md section 4, C12.R1-R4)."""
from ..engine import site_of
from ..facts import op_place, op_local, op_const
from ..callgraph import callee_is
from ..mirutil import (success_edges, result_return_sites, root_place, op_root, deep_root, place_is_field,
                       calls_on_field, aggregates, origin, defuse, calls_in, field_writes, loops_of, iter_source, sweep_stores, sweep_closures)
from ..region import switch_edges_on_variant, dominated_by_edges
from .. import anchors as A

HM_REMOVE = ("HashMap::remove", "HashMap<K, V, S>::remove", "HashMap::remove_entry", "HashMap<K, V, S>::remove_entry")


def peer_remove_sites(prog):
    return calls_on_field(prog, HM_REMOVE, "GenericCloud", "peers")


def r1_removal_pairing(cx):
    prog = cx.prog
    sites = peer_remove_sites(prog)
    cx.floor("peers-remove-sites", len(sites), 3, "peers.remove call sites")
    rc = A.method(prog, "ClaimTable", "remove_claims")
    for (b, bi, t) in sites:
        cx.touch(b)
        cfg = b.cfg
        rcs = [ci for ci, ct in b.calls() if any(d == rc.did for _k, d in prog.cg.resolve(b, ct))]
        # same address
        key = deep_root(b, t["args"][1])
        rcs_same = []
        for ci in rcs:
            a = deep_root(b, b.blocks[ci]["term"]["args"][1])
            if a is not None and key is not None and a["l"] == key["l"]:
                rcs_same.append(ci)
        # edges on which remove() is known to have returned None: nothing was removed
        oc = success_edges(b, bi)
        none_edges = oc.err_edges if not oc.unrecognised else set()
        ok = False
        if any(cfg.dominates(ci, bi) for ci in rcs_same):
            ok = True
        else:
            start = cfg.succ.get(bi, [])
            reach = cfg.reachable_from(start, avoid_blocks=rcs_same, avoid_edges=none_edges)
            escapes = [x for x in reach if x in cfg.exits or x == bi]
            ok = bool(rcs_same) and not escapes
        cx.check("paired:" + b.name, ok, site_of(b, bi),
                 "peers.remove(addr) is followed on every path (where a peer was removed) by table.remove_claims(addr) before return / next iteration")


def r2_complete_sweep(cx):
    prog = cx.prog
    n = 0
    for name in ("set_claims", "remove_claims", "housekeep"):
        b = A.method(prog, "ClaimTable", name)
        cx.touch(b)
        for li in loops_of(b):
            n += 1
            src = iter_source(b, li)
            what = "?"
            if src is not None:
                fs = [e.get("n") for e in src.get("p", []) if e["k"] == "field"]
                what = ("self." + fs[-1]) if fs else (b.local_name(src["l"]) or "_%d" % src["l"])
            cx.check("sweep:%s:%s" % (name, what), not li.other_exits and bool(li.exhaust_exits),
                     site_of(b, li.other_exits[0][0]) if li.other_exits else site_of(b, li.header),
                     "loop over %s in %s leaves only by exhaustion (early exits: %d)" % (what, name, len(li.other_exits)))
        n += len(sweep_closures(prog, b))
    cx.floor("sweep-loops", n, 2, "sweeps (loops or internal iterations) in set_claims/remove_claims/housekeep")


def r3_announcement_wiring(cx):
    prog = cx.prog
    upi = A.cloud_fn(prog, "update_peer_info")
    anp = A.cloud_fn(prog, "add_new_peer")
    sc = A.method(prog, "ClaimTable", "set_claims")
    hk = A.method(prog, "ClaimTable", "housekeep")
    cx.touch(upi, anp, sc)
    # update_peer_info(Some(info)) reaches set_claims(addr, info.claims)
    calls = [ci for ci, ct in upi.calls() if any(d == sc.did for _k, d in prog.cg.resolve(upi, ct))]
    cx.exact("set_claims-calls", len(calls), 1, "calls of set_claims in update_peer_info")
    for ci in calls:
        t = upi.blocks[ci]["term"]
        a1 = deep_root(upi, t["args"][1])
        a2 = deep_root(upi, t["args"][2])
        cx.check("set_claims-args", a1 is not None and a1["l"] == 2 and a2 is not None and place_is_field(a2, "NodeInfo", "claims"),
                 site_of(upi, ci), "set_claims receives the peer's address and the claims of the received node info")
        # reached whenever the peer exists and info is Some: from the Some edge on `info` every path to return passes it
        some_edges = set()
        du = defuse(upi)
        for sb in upi.cfg.reach:
            tt = upi.blocks[sb]["term"]
            if tt["k"] != "switch":
                continue
            l = op_local(tt["discr"])
            d = du.single_def(l) if l is not None else None
            if d and d[0] == "stmt" and d[3]["rv"]["k"] == "discr":
                r = root_place(upi, d[3]["rv"]["place"])
                if r["l"] == 3 and not [e for e in r.get("p", []) if e["k"] != "deref"]:
                    for k, v in enumerate(tt["values"]):
                        if v == 1:
                            some_edges.add(("e", sb, k))
        dom = [e for e in some_edges if upi.cfg.dominates(e, ci)]
        ok = False
        for e in dom:
            reach = upi.cfg.reachable_from_edge(e, avoid_blocks=[ci])
            if not any(x in upi.cfg.exits for x in reach):
                ok = True
        cx.check("set_claims-always", ok, site_of(upi, ci), "once info is Some (and the peer exists) every path reaches set_claims")
    # add_new_peer: after peers.insert every path reaches update_peer_info(Some(info))
    ins = calls_on_field(prog, ("HashMap::insert", "HashMap<K, V, S>::insert"), "GenericCloud", "peers", bodies=[anp])
    ucalls = [ci for ci, ct in anp.calls() if any(d == upi.did for _k, d in prog.cg.resolve(anp, ct))]
    ok = False
    for (_b, bi, t) in ins:
        reach = anp.cfg.reachable_from(anp.cfg.succ.get(bi, []), avoid_blocks=ucalls)
        if ucalls and not any(x in anp.cfg.exits for x in reach):
            o = origin(anp, anp.blocks[ucalls[0]]["term"]["args"][2])
            if o[0] == "rvalue" and o[2]["rv"].get("variant") == "Some":
                ok = True
    cx.check("add_new_peer-announces", ok, site_of(anp), "after peers.insert every path reaches update_peer_info(addr, Some(info))")
    # the sweep itself is unconditional: every return of housekeep lies behind both retain() calls ("disappear at once",
    # not "at the next sweep that happens to run")
    for fld, calls_ in (("claims", ("vec::Vec::retain", "Vec::retain")), ("cache", ("HashMap::retain", "collections::HashMap::retain"))):
        ret = calls_on_field(prog, calls_, "ClaimTable", fld, bodies=[hk])
        cx.check("sweep-unconditional:" + fld, len(ret) == 1 and all(hk.cfg.dominates(bi, r) for (_b, bi, _t) in ret for r in hk.cfg.exits), site_of(hk),
                 "ClaimTable::housekeep removes expired %s on every call (no rate limit / early return before the retain)" % fld)
    # set_claims / remove_claims end with the expiry sweep
    for fn in (sc, A.method(prog, "ClaimTable", "remove_claims")):
        hcalls = [ci for ci, ct in fn.calls() if any(d == hk.did for _k, d in prog.cg.resolve(fn, ct))]
        ok = bool(hcalls) and all(any(fn.cfg.dominates(h, r) for h in hcalls) for r in fn.cfg.exits)
        cx.check("ends-with-sweep:" + fn.name, ok, site_of(fn), "%s runs the expiry sweep before returning" % fn.name)
        # the peer's cache entries are expired: a store of 0 to CacheValue.timeout inside a loop
        z = sweep_stores(prog, fn, "CacheValue", "timeout", 0)
        cx.check("cache-expired:" + fn.name, len(z) >= 1, site_of(fn), "%s zeroes the expiry of the peer's cache entries in a sweep" % fn.name)
        z2 = sweep_stores(prog, fn, "ClaimEntry", "timeout", 0)
        cx.check("claims-expired:" + fn.name, len(z2) >= 1, site_of(fn), "%s zeroes the expiry of the peer's dropped claims in a sweep" % fn.name)


def r5_withdrawal_by_membership(cx):
    """"Dropped claims disappear at once": whether a stored claim of the announcing peer is kept or withdrawn must
    be decided by looking it up in the announcement itself.  Rule: in ClaimTable::set_claims every store that
    zeroes a ClaimEntry expiry lies behind the not-found edge of a search (position / contains / any / find) over
    the announced list (parameter 3) - not behind a comparison of time stamps or counters, which cannot tell two
    announcements processed in the same second apart."""
    prog = cx.prog
    sc = A.method(prog, "ClaimTable", "set_claims")
    cx.touch(sc)
    SEARCH = ("iter::Iterator::position", "iter::Iterator::any", "iter::Iterator::find", "iter::Iterator::find_map",
              "slice::<impl [T]>::contains", "iter::Iterator::rposition")
    not_found = set()
    searches = 0
    for ci, ct in sc.calls():
        if not callee_is(ct, *SEARCH) or not ct["args"]:
            continue
        cur = ct["args"][0]
        over_announcement = False
        for _ in range(6):
            r = deep_root(sc, cur)
            if r is not None and r["l"] == 3 and not [e for e in r.get("p", []) if e["k"] == "field"]:
                over_announcement = True
                break
            o = origin(sc, cur)
            if o[0] == "call" and o[2]["args"]:
                cur = o[2]["args"][0]
                continue
            break
        if not over_announcement:
            continue
        searches += 1
        not_found |= success_edges(sc, ci).err_edges
    cx.floor("announcement-searches", searches, 1, "searches over the announced claim list in set_claims")
    zero = [(bi, s) for bi, si, s in sc.stmts() if s["k"] == "assign" and place_is_field(s["place"], "ClaimEntry", "timeout")
            and s["rv"]["k"] == "use" and op_const(s["rv"]["op"]) == 0]
    inner = [(cb, bi) for (cb, bi) in sweep_stores(prog, sc, "ClaimEntry", "timeout", 0) if cb.did != sc.did]
    cx.floor("withdrawal-stores", len(zero) + len(inner), 1, "stores that expire a claim in set_claims")
    for bi, s in zero:
        cx.check("withdrawn-iff-not-announced", dominated_by_edges(sc, not_found, bi), site_of(sc, span=s["span"]),
                 "a stored claim is expired only on the not-found edge of a search over the announced list")
    for cb, bi in inner:
        cx.check("withdrawn-iff-not-announced", False, site_of(cb, bi), "a claim is expired inside a closure: the membership test could not be related to the store (unrecognised idiom, fail closed)")


def r4_who_may_refresh(cx):
    prog = cx.prog
    w = field_writes(prog, "ClaimEntry", "timeout")
    fns = sorted(set(b.name for (b, bi, k, s) in w))
    cx.check("claim-timeout-writers", set(fns) <= {"set_claims", "remove_claims"} and len(w) >= 3, None,
             "ClaimEntry.timeout is stored only by set_claims/remove_claims (found %s, %d sites)" % (fns, len(w)))
    ag = aggregates(prog, "ClaimEntry")
    fns2 = sorted(set(b.name for (b, bi, s) in ag))
    cx.check("claim-constructors", fns2 == ["set_claims"], None, "ClaimEntry is constructed only in set_claims (found %s)" % fns2)
    # claims vector is only pushed to / retained
    vw = field_writes(prog, "ClaimTable", "claims")
    fns3 = sorted(set(b.name for (b, bi, k, s) in vw))
    cx.check("claims-vector-writers", set(fns3) <= {"set_claims", "remove_claims", "housekeep", "new"}, None,
             "ClaimTable.claims is mutated only by set_claims/remove_claims/housekeep (found %s)" % fns3)


RULES = [
    ("C12.R1", r1_removal_pairing, "every peers.remove(a) is paired with table.remove_claims(a)"),
    ("C12.R2", r2_complete_sweep, "claim/cache sweeps in set_claims/remove_claims/housekeep leave only by exhaustion"),
    ("C12.R3", r3_announcement_wiring, "node info always reaches set_claims; add_new_peer announces; sweeps end with expiry"),
    ("C12.R4", r4_who_may_refresh, "who may write ClaimEntry.timeout / construct claims"),
    ("C12.R5", r5_withdrawal_by_membership, "a stored claim is withdrawn iff it is not found in the announcement (membership, not time stamps)"),
]

LEVEL_TEXT = ("Static pairing / sweep / who-may-write rules on MIR: every removal from the peer map is followed by removal of that peer's "
              "routes on all paths; the refresh/expire/append loops over claims and cache have no exit other than exhaustion; announcements "
              "always reach set_claims; only set_claims/remove_claims touch claim expiries."
              " A stored claim is withdrawn iff it is not found in the announcement (membership, not time stamps); the table sweep is unconditional.")
LEVEL_NOTE = "Decides C12.R1-R4 (necessary conditions). Not decided: equality of the stored claim set with the last announcement as a value."
TECHNIQUE = "MIR pairing (must-follow) analysis, natural-loop exit classification, who-may-write"
