"""C14 - full mesh; a node never peers with itself (DESIGN.md section 4, C14.R1-R4). Partial."""
from ..engine import site_of
from ..facts import op_place, op_local, op_const
from ..callgraph import callee_is
from ..mirutil import (success_edges, root_place, op_root, deep_root, place_is_field, calls_on_field, aggregates,
                       origin, defuse, calls_in, result_return_sites, loops_of, iter_source, dominated_by_ok)
from ..region import dominated_by_edges, bool_place_edges, write_summary
from .. import anchors as A
from . import c16
from .c13 import length_mismatch_rule


def r1_self_test_first(cx):
    prog = cx.prog
    hi = A.method(prog, "InitState", "handle_init")
    chk = A.method(prog, "InitState", "check_salted_node_id_hash")
    ws = write_summary(prog)
    cx.touch(hi, chk)
    calls = [ci for ci, ct in hi.calls() if any(d == chk.did for _k, d in prog.cg.resolve(hi, ct))]
    cx.exact("self-test-calls", len(calls), 1, "calls of check_salted_node_id_hash in handle_init")
    if len(calls) != 1:
        return
    c = calls[0]
    oc = success_edges(hi, c)
    passed = oc.err_edges  # bool result false: "not myself"
    cx.check("self-test-tested", bool(passed) and bool(oc.ok_edges), site_of(hi, c), "the result of the self test is branched on")
    # the true edge returns Err without touching anything
    bad = []
    for e in oc.ok_edges:
        reach = hi.cfg.reachable_from_edge(e, avoid_edges=passed)
        for kind, rbi, info in result_return_sites(hi):
            if kind in ("ok", "call", "move") and rbi in reach:
                bad.append(rbi)
    cx.check("self-aborts", not bad, site_of(hi, c), "when the sender is this node itself the handshake step returns an error")
    # every store through self / reply written to out / Success is dominated by the 'not myself' edge
    viol = []
    n = 0
    for bi in sorted(hi.cfg.reach):
        blk = hi.blocks[bi]
        for s in blk["stmts"]:
            if s["k"] == "assign" and s["place"].get("p"):
                r = root_place(hi, s["place"])
                if r["l"] == 1 and any(e["k"] == "deref" for e in r.get("p", [])):
                    n += 1
                    if not dominated_by_edges(hi, passed, bi):
                        viol.append((bi, "store to self.%s" % ".".join(str(e.get("n", "")) for e in r["p"] if e["k"] == "field")))
            if s["k"] == "assign" and s["rv"]["k"] == "aggregate" and s["rv"].get("variant") == "Success":
                n += 1
                if not dominated_by_edges(hi, passed, bi):
                    viol.append((bi, "InitResult::Success"))
        t = blk["term"]
        if t["k"] == "call" and bi != c:
            for reason, ai in ws.call_writes(hi, t):
                r = op_root(hi, t["args"][ai])
                if r is None or r["l"] not in (1, 2):
                    continue
                # clearing the consumed input buffer may precede the test
                if r["l"] == 2 and callee_is(t, "MsgBuffer::clear"):
                    continue
                # the parse/verify gate reads the buffer
                if callee_is(t, "InitMsg::read_from"):
                    continue
                n += 1
                if not dominated_by_edges(hi, passed, bi):
                    viol.append((bi, "writing call %s" % t["callee"]["path"]))
    cx.floor("guarded-effects", n, 10, "stores / writing calls / Success constructions in handle_init")
    for bi, what in viol:
        cx.check("before-self-test:" + what, False, site_of(hi, bi), "%s is not dominated by the self test's 'not myself' edge" % what)
    if not viol:
        cx.check("all-effects-after-self-test", True, site_of(hi), "all %d effects of handle_init are dominated by the self test" % n)


def r2_self_test_can_succeed(cx):
    length_mismatch_rule(cx, ("src/crypto/init.rs", "src/crypto/common.rs", "src/crypto/core.rs", "src/crypto/rotate.rs", "src/messages.rs", "src/beacon.rs", "src/util.rs", "src/config.rs", "src/main.rs", "src/net.rs"), "eq-sites-crypto", 3)
    # the self test compares the received salted hash with one recomputed from the own node id
    prog = cx.prog
    chk = A.method(prog, "InitState", "check_salted_node_id_hash")
    dig = calls_in(chk, "ring::digest::digest")
    cx.check("recomputes-hash", len(dig) == 1, site_of(chk), "check_salted_node_id_hash recomputes the salted digest")
    # ... under the salt carried by the *received* hash: every handshake object draws its own salt, so a digest salted
    # with the own stored value recognises only this very object's messages
    for ci, ct in dig:
        buf = deep_root(chk, ct["args"][1])
        srcs = []
        for xi, xt in chk.calls():
            if callee_is(xt, "slice::<impl [T]>::clone_from_slice", "slice::<impl [T]>::copy_from_slice") and len(xt["args"]) == 2:
                d0 = deep_root(chk, xt["args"][0])
                s0 = deep_root(chk, xt["args"][1])
                if d0 is not None and buf is not None and d0["l"] == buf["l"] and s0 is not None:
                    srcs.append(s0)
        from_recv = any(r["l"] == 2 for r in srcs)
        from_id = any(r["l"] == 3 for r in srcs)
        from_own = any(r["l"] == 1 and place_is_field(r, "InitState", "salted_node_id_hash") for r in srcs)
        cx.check("digest-salted-by-received-hash", buf is not None and from_recv and from_id and not from_own, site_of(chk, ci),
                 "the recomputed digest is over (salt of the received hash, own node id), not over the object's own stored salt")


def r3_own_addresses_not_dialled(cx):
    prog = cx.prog
    cs = A.cloud_fn(prog, "connect_sock")
    cx.touch(cs)
    ins = calls_on_field(prog, ("HashMap::insert",), "GenericCloud", "pending_inits", bodies=[cs])
    cx.exact("dial-insert", len(ins), 1, "pending_inits.insert in connect_sock")
    own_false = set()
    for (b, ci, ct) in _contains_on(prog, cs, "own_addresses"):
        own_false |= success_edges(cs, ci).err_edges
    for (b, bi, t) in ins:
        cx.check("own-address-not-dialled", dominated_by_edges(cs, own_false, bi), site_of(cs, bi),
                 "connect_sock stores a dialling handshake only if the address is not one of the own addresses")
    sends = [ci for ci, ct in cs.calls() if any(prog.by_did[d].name == "send_to" for _k, d in prog.cg.resolve(cs, ct))]
    for ci in sends:
        cx.check("own-address-not-sent", dominated_by_edges(cs, own_false, ci), site_of(cs, ci), "no ping is sent to an own address")
    # connect_to_peers: the own-node-id branch adopts addresses and does not dial
    ctp = A.cloud_fn(prog, "connect_to_peers")
    cx.touch(ctp)
    eqs = []
    for ci, ct in ctp.calls():
        c = ct.get("callee")
        if c and c.get("name") == "eq" and (c.get("trait") or "").endswith("cmp::PartialEq") and len(ct["args"]) == 2:
            roots = [deep_root(ctp, a) for a in ct["args"]]
            if any(r is not None and place_is_field(r, "GenericCloud", "node_id") and r["l"] == 1 for r in roots):
                eqs.append(ci)
    cx.exact("own-id-comparisons", len(eqs), 1, "comparisons of a received node id with the own node id")
    connects = [ci for ci, ct in ctp.calls() if any(prog.by_did[d].name == "connect" for _k, d in prog.cg.resolve(ctp, ct))]
    cx.floor("connect-calls", len(connects), 1, "calls of connect in connect_to_peers")
    outer = None
    loops = loops_of(ctp)
    for li in loops:
        src = iter_source(ctp, li)
        if src is not None and src["l"] == 2:
            outer = li
    cx.check("outer-loop", outer is not None, site_of(ctp), "the sweep over the received peer list was identified")
    # every listed entry reaches the own-id comparison (or is dialled) unless one of its addresses already is a
    # connected peer: no other early `continue` may hide an entry from the adoption branch
    if outer is not None and eqs:
        peer_known = set()
        for (b, ci2, ct2) in calls_on_field(prog, ("HashMap::contains_key", "HashMap<K, V, S>::contains_key", "collections::HashMap::contains_key"), "GenericCloud", "peers", bodies=[ctp]):
            peer_known |= success_edges(ctp, ci2).ok_edges
        # `entry.addrs.iter().any(|a| self.peers.contains_key(a))`: true iff some address is a connected peer
        for ai, at in ctp.calls():
            if not callee_is(at, "iter::Iterator::any") or len(at["args"]) < 2:
                continue
            rcl = op_root(ctp, at["args"][1])
            dcl = defuse(ctp).single_def(rcl["l"]) if rcl is not None else None
            if not (dcl and dcl[0] == "stmt" and dcl[3]["rv"].get("agg") == "closure"):
                continue
            cb = prog.by_did.get(dcl[3]["rv"]["closure_did"])
            ups = [deep_root(ctp, o) for o in dcl[3]["rv"]["ops"] if op_place(o) is not None]
            if cb is None or not any(u is not None and place_is_field(u, "GenericCloud", "peers") for u in ups):
                continue
            cks = [(ci3, ct3) for ci3, ct3 in cb.calls() if callee_is(ct3, "HashMap::contains_key", "HashMap<K, V, S>::contains_key", "collections::HashMap::contains_key")]
            others = [ci3 for ci3, ct3 in cb.calls() if (ci3, ct3) not in cks]
            if len(cks) == 1 and not others and not cks[0][1]["dest"].get("p") and cks[0][1]["dest"]["l"] == 0:
                peer_known |= success_edges(ctp, ai).ok_edges
        starts = []
        inner_blocks = set()
        for li2 in loops:
            if li2.header != outer.header and li2.header in outer.blocks:
                inner_blocks |= set(li2.blocks)
        own_next = [nb for nb in outer.next_calls if nb not in inner_blocks]
        for nb in own_next:
            for e in success_edges(ctp, nb).ok_edges:
                starts.append(ctp.cfg.succ[e[1]][e[2]])
        reach = ctp.cfg.reachable_from(starts, avoid_blocks=list(eqs) + list(connects), avoid_edges=peer_known)
        hidden = outer.header in reach or any(nb in reach for nb in own_next)
        cx.check("entry-reaches-own-id-test", bool(starts) and not hidden, site_of(ctp, eqs[0]),
                 "a received entry is skipped before the own-node-id test only when one of its addresses is a connected peer")
    for ci in eqs:
        oc = success_edges(ctp, ci)
        pushes = [(pi, pt) for pi, pt in ctp.calls() if callee_is(pt, "SmallVec::push") and
                  (lambda r: r is not None and place_is_field(r, "GenericCloud", "own_addresses"))(op_root(ctp, pt["args"][0]))]
        cx.check("adopts-own-addresses", bool(pushes) and all(dominated_by_edges(ctp, oc.ok_edges, pi) for pi, _ in pushes), site_of(ctp, ci),
                 "addresses listed under the own node id are pushed to own_addresses (only) in the equal branch")
        if outer is not None:
            bad = []
            for e in oc.ok_edges:
                reach = ctp.cfg.reachable_from_edge(e, avoid_blocks=[outer.header] + outer.next_calls)
                bad += [x for x in connects if x in reach]
            cx.check("own-id-not-dialled", not bad, site_of(ctp, ci), "after recognising its own node id the node does not dial that entry in the same iteration")


def _contains_on(prog, body, field):
    out = []
    for ci, ct in body.calls():
        if callee_is(ct, "slice::<impl [T]>::contains", "[T]>::contains", "contains") and ct["args"]:
            r = deep_root(body, ct["args"][0])
            if r is not None and place_is_field(r, "GenericCloud", field):
                out.append((body, ci, ct))
    return out


def r4_peer_exchange_wiring(cx):
    prog = cx.prog
    cni = A.cloud_fn(prog, "create_node_info")
    cx.touch(cni)
    # sweeps all peers
    ok = False
    for li in loops_of(cni):
        src = iter_source(cni, li)
        if src is not None and place_is_field(src, "GenericCloud", "peers"):
            ok = not li.other_exits and bool(li.exhaust_exits)
    if not ok:
        # internal iteration: self.peers.values().map(|peer| PeerInfo { .. }).collect()
        from ..mirutil import adapter_closures
        for (cb, adapter, src, short, complete) in adapter_closures(prog, cni):
            if adapter == "map" and not short and complete and src is not None and place_is_field(src, "GenericCloud", "peers"):
                ok = True
    cx.check("node-info-lists-all-peers", ok, site_of(cni), "create_node_info sweeps the whole peer map (exhaustion exit only)")
    ags = [(b, bi, s) for (b, bi, s) in aggregates(prog, "NodeInfo") if b.did == cni.did]
    cx.exact("node-info-ctor", len(ags), 1, "NodeInfo constructions in create_node_info")
    for (b, bi, s) in ags:
        rv = s["rv"]
        a = rv["ops"][rv["fields"].index("addrs")]
        o = origin(b, a)
        okc = o[0] == "call" and callee_is(o[2], "clone::Clone::clone") and place_is_field(deep_root(b, o[2]["args"][0]), "GenericCloud", "own_addresses")
        cx.check("node-info-own-addresses", okc, site_of(b, span=s["span"]), "the node info carries a clone of own_addresses")
        n = rv["ops"][rv["fields"].index("node_id")]
        r = op_root(b, n)
        cx.check("node-info-own-id", r is not None and place_is_field(r, "GenericCloud", "node_id"), site_of(b, span=s["span"]), "the node info carries the own node id")
    # every received node info reaches connect_to_peers(info.peers)
    upi = A.cloud_fn(prog, "update_peer_info")
    ctp = A.cloud_fn(prog, "connect_to_peers")
    calls = [ci for ci, ct in upi.calls() if any(d == ctp.did for _k, d in prog.cg.resolve(upi, ct))]
    cx.exact("connect_to_peers-calls", len(calls), 1, "calls of connect_to_peers in update_peer_info")
    sc = A.method(prog, "ClaimTable", "set_claims")
    scs = [ci for ci, ct in upi.calls() if any(d == sc.did for _k, d in prog.cg.resolve(upi, ct))]
    for ci in calls:
        a = deep_root(upi, upi.blocks[ci]["term"]["args"][1])
        cx.check("exchange-uses-received-list", a is not None and place_is_field(a, "NodeInfo", "peers"), site_of(upi, ci), "connect_to_peers receives the peers of the received node info")
        ok = bool(scs)
        for s0 in scs:
            reach = upi.cfg.reachable_from(upi.cfg.succ.get(s0, []), avoid_blocks=[ci])
            if any(x in upi.cfg.exits for x in reach):
                ok = False
        cx.check("exchange-always", ok, site_of(upi, ci), "after set_claims every path reaches connect_to_peers")
    # housekeep broadcasts node info whenever next_peers <= now
    hk = A.cloud_fn(prog, "housekeep")
    ni = prog.const_value("MESSAGE_TYPE_NODE_INFO")
    bc = [ci for ci, ct in hk.calls() if any(prog.by_did[d].name == "broadcast_msg" for _k, d in prog.cg.resolve(hk, ct)) and op_const(ct["args"][1]) == ni]
    cx.exact("node-info-broadcasts", len(bc), 1, "broadcast_msg(MESSAGE_TYPE_NODE_INFO) in housekeep")
    for ci in bc:
        # dominated by a comparison involving self.next_peers, and no other condition between
        cmp_edges = set()
        for bi, si, s in hk.stmts():
            if s["k"] == "assign" and s["rv"]["k"] == "binop" and s["rv"]["op"] in ("Le", "Lt", "Ge", "Gt"):
                rs = [op_root(hk, s["rv"]["a"]), op_root(hk, s["rv"]["b"])]
                if any(r is not None and place_is_field(r, "GenericCloud", "next_peers") for r in rs):
                    l = s["place"]["l"]
                    for sb in hk.cfg.reach:
                        tt = hk.blocks[sb]["term"]
                        if tt["k"] == "switch" and op_local(tt["discr"]) == l:
                            for k, v in enumerate(tt["values"]):
                                if v != 0:
                                    cmp_edges.add(("e", sb, k))
                            if tt["values"] == [0]:
                                cmp_edges.add(("e", sb, 1))
        ok = dominated_by_edges(hk, cmp_edges, ci)
        # from the due edge, the broadcast is reached on every path that does not leave through an error
        if ok:
            for e in cmp_edges:
                reach = hk.cfg.reachable_from_edge(e, avoid_blocks=[ci])
                oks = [rbi for kind, rbi, info in result_return_sites(hk) if kind == "ok"]
                if any(r in reach for r in oks):
                    ok = False
        cx.check("announce-when-due", ok, site_of(hk, ci), "when next_peers is due, housekeep broadcasts the node info before it can return Ok")


RULES = [
    ("C14.R1", r1_self_test_first, "the connected-to-self abort dominates every effect of handle_init"),
    ("C14.R2", r2_self_test_can_succeed, "the self test compares sequences of equal length (it can succeed)"),
    ("C14.R3", r3_own_addresses_not_dialled, "own addresses are not dialled; addresses under the own node id are adopted, not dialled"),
    ("C14.R5", c16.r3_flag_layout, "the peer lists that carry the mesh are decodable for every node: address counts fit the 3-bit fields of the node-info flags byte (= C16.R3)"),
    ("C14.R4", r4_peer_exchange_wiring, "node info lists all peers and own addresses; received lists reach connect_to_peers; announcements when due"),
]

LEVEL_TEXT = ("Static rules on MIR: the self-connection test in handle_init dominates every store, reply and Success; the comparison inside the "
              "test is between byte sequences of equal static length (otherwise it can never match); connect_sock refuses own addresses; the "
              "own-node-id branch of connect_to_peers adopts addresses and cannot reach connect; node-info construction and exchange wiring."
              " A received entry is skipped before the own-id test only when one of its addresses is a connected peer; address counts fit the 3-bit fields of the node-info flags (shared with C16).")
LEVEL_NOTE = ("Partial: decides C14.R1-R4. Not decided: convergence to a full mesh over all bootstrap graphs and NAT settings (a reachability "
              "property of the distributed system).")
TECHNIQUE = "MIR dominance, static length analysis of comparisons, loop-exit classification, who-may-call"
