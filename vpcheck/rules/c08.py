"""C08 - no datagram from an outsider can crash a node (DESIGN.md section 4, C08.R1-R5)."""
from ..engine import site_of
from ..facts import op_place, op_local, op_const
from ..callgraph import callee_is
from ..mirutil import loops_of, success_edges, calls_in
from ..region import pregate_region, Gate
from ..totality import check_region, load_table
from ..intervals import check_field_invariants, msgbuffer_model_ok
from .. import anchors as A
from . import c01

FOLDS = ({("PeerCrypto", "unencrypted"): True}, {("PeerCrypto", "unencrypted"): False})

READER_CALLS = ("io::Read::read_exact", "ReadBytesExt::read_u8", "ReadBytesExt::read_u16", "ReadBytesExt::read_u32",
                "ReadBytesExt::read_u64", "ReadBytesExt::read_f32", "types::Range::read_from", "types::Address::read_from",
                "types::Address::read_from_fixed", "messages::NodeInfo::read_addr_list_inner")
SHRINK_CALLS = ("smallvec::SmallVec::pop", "vec::Vec::pop", "smallvec::SmallVec::swap_remove", "vec::Vec::swap_remove",
                "smallvec::SmallVec::remove", "vec::Vec::remove", "smallvec::SmallVec::truncate", "vec::Vec::truncate")


def loop_makes_progress(b, li):
    """Every cycle of the loop consumes input or shrinks a collection: the header cannot be reached again from
    inside the loop without passing a shrink call or the *success edge* of a reader call (a reader that fails - end of
    input - has consumed nothing, so a cycle that swallows the failure and goes round again is not progress)."""
    from ..mirutil import success_edges
    shrink = [bi for bi in li.blocks if b.blocks[bi]["term"]["k"] == "call" and callee_is(b.blocks[bi]["term"], *SHRINK_CALLS)]
    readers = [bi for bi in li.blocks if b.blocks[bi]["term"]["k"] == "call" and callee_is(b.blocks[bi]["term"], *READER_CALLS)]
    if not shrink and not readers:
        return False
    avoid_edges = set()
    avoid_blocks = list(shrink)
    for bi in readers:
        oc = success_edges(b, bi)
        if oc.ok_edges:
            avoid_edges |= oc.ok_edges
        else:
            avoid_blocks.append(bi)
    outside = [x for x in b.cfg.reach if x not in li.blocks]
    starts = [s for s in b.cfg.succ.get(li.header, []) if s in li.blocks]
    reach = b.cfg.reachable_from(starts, avoid_blocks=avoid_blocks + outside, avoid_edges=avoid_edges)
    return li.header not in reach or li.header in avoid_blocks


def regions(prog):
    """(pre, post) regions of the datagram path, union over both values of the plain-mode flag (A6)."""
    if hasattr(prog, "_c08_regions"):
        return prog._c08_regions
    entry = A.cloud_fn(prog, "handle_socket_event")
    allpre, allpost = {}, {}
    for fold in FOLDS:
        g = Gate(prog, "G_auth", lambda t: A.is_sig_verify(t) or A.is_aead_open(t), fold=fold)
        pre, post = pregate_region(prog, [entry], g, fold=fold)
        for k, v in pre.items():
            allpre.setdefault(k, set()).update(v)
        for k, v in post.items():
            allpost.setdefault(k, set()).update(v)
    # a block that is pre-gate in one mode is attacker-reachable
    for k, v in allpre.items():
        if k in allpost:
            allpost[k] -= v
            if not allpost[k]:
                del allpost[k]
    prog._c08_regions = (entry, allpre, allpost)
    return prog._c08_regions


def r1_region(cx):
    prog = cx.prog
    recv = A.calls_where(prog, A.is_socket_receive)
    cx.exact("receive-sites", len(recv), 1, "Socket::receive call sites")
    entry, pre, post = regions(prog)
    for (b, bi, t) in recv:
        cx.check("entry-consumes-receive", b.did == entry.did, site_of(b, bi), "the datagram entry is the function consuming Socket::receive")
    cx.floor("pre-functions", len(pre), 120, "functions in the attacker-reachable (pre-authentication) region")
    cx.floor("post-functions", len(post), 20, "functions with post-authentication blocks on the datagram path")
    # sanity of the gates: the AEAD open and the signature verify are both inside the region
    names = set(prog.by_did[d].name for d in pre)
    for must in ("handle_net_message", "decrypt", "read_from", "decode_internal", "set_claims", "handle_payload_from"):
        cx.check("region-contains:" + must, must in names, None, "the region reaches %s" % must)


def r2_pre_sites(cx):
    prog = cx.prog
    entry, pre, post = regions(prog)
    check_region(cx, pre, "C08.pre", [entry], "pre")
    for ok, adt, field, b, bi, v in check_field_invariants(prog):
        cx.check("invariant:%s.%s:%s" % (adt, field, b.path), ok, site_of(b, bi),
                 "field invariant %s.%s re-established at construction/store (value %s)" % (adt, field, v))
    for name, ok, b in msgbuffer_model_ok(prog):
        cx.check("model:MsgBuffer:" + name, ok, site_of(b), "MsgBuffer model used by the interval analysis matches the code: " + name)


def r3_post_sites(cx):
    prog = cx.prog
    entry, pre, post = regions(prog)
    check_region(cx, post, "C08.post", [entry], "post")


def r5_loops_terminate(cx):
    prog = cx.prog
    entry, pre, post = regions(prog)
    n = 0
    for did, blocks in sorted(pre.items()):
        b = prog.by_did[did]
        for li in loops_of(b):
            if li.header not in blocks:
                continue
            n += 1
            kind = None
            if li.next_calls and li.exhaust_exits:
                kind = "iterator"
            else:
                if loop_makes_progress(b, li):
                    kind = "progress"
            how = "auto"
            if kind is None:
                e = load_table("C08.loops").get("loop:" + b.path)
                if e is not None:
                    kind = "table"
                    how = "table"
                    cx.check("loop:%s" % b.path, True, site_of(b, li.header), "loop reviewed: " + e["reason"], how="table")
                    continue
            cx.check("loop:%s" % b.path, kind is not None, site_of(b, li.header),
                     "loop terminates: %s" % ({"iterator": "driven by an iterator over a finite collection, left on exhaustion",
                                                "progress": "every cycle consumes input (reader) or shrinks a collection"}.get(kind, "no progress argument found")))
    cx.floor("loops", n, 15, "loops in the attacker-reachable region")


RULES = [
    ("C08.R1", r1_region, "region: call-graph closure of the datagram entry, split pre/post authentication (both plain-mode flag values)"),
    ("C08.R2", r2_pre_sites, "every attacker-reachable panic site is proved by interval analysis or covered by a reviewed table entry"),
    ("C08.R3", r3_post_sites, "post-authentication panic sites are proved or reviewed"),
    ("C08.R4a", c01.r3_verify_before_mutate, "nothing is stored for a rejected handshake datagram (= C01.R3)"),
    ("C08.R4b", c01.r5_responder_stored_if_verified, "no responder stored / no reply for a rejected datagram (= C01.R5)"),
    ("C08.R5", r5_loops_terminate, "loops in the attacker-reachable region terminate"),
]

LEVEL_TEXT = ("Totality analysis on MIR: the region reachable from the datagram entry before any signature/AEAD gate succeeded (union over both values of the "
              "plain-mode flag) is enumerated; every panic-capable construct in it (Assert terminators, core::panicking calls, unwrap/expect, slice "
              "indexing/copying APIs, process::exit) is either proved unreachable-to-fire by a forward interval analysis with branch refinement "
              "(all datagram contents and lengths, because no value is inspected) or matched by exact key and count against a reviewed table; "
              "loops must show progress. Post-authentication sites are handled the same way against a separate table.")
LEVEL_NOTE = ("Trusted: the reviewed entries of tables/panic_sites.json (state invariants of MsgBuffer, ring API contracts), the interval "
              "analysis' models of core functions, allocation failure is out of scope. Panics inside external crates (ring, std collections) are "
              "not analysed beyond the listed panicking API.")
TECHNIQUE = "MIR panic-site enumeration over an interprocedural pre-authentication region + interval abstract interpretation + reviewed table"
