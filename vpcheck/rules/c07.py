"""C07 - key rotation never strands traffic (DESIGN.md section 4, C07.R1-R6). Partial."""
from ..engine import site_of
from ..facts import op_place, op_local, op_const, AnchorError
from ..callgraph import callee_is
from ..mirutil import (feasible_reach, option_some_edges, deep_root_through_try, root_place, op_root, deep_root, origin, defuse, calls_in, place_is_field, success_edges, field_writes,
                       aggregates, result_return_sites, dominated_by_ok)
from ..region import dominated_by_edges, write_summary
from ..decision import enum_switch_edges
from .. import anchors as A


def _some_edges(body, pred):
    """Edges selecting Some of an Option place satisfying pred(root place): match / if let / `?` / is_some()."""
    return option_some_edges(body, pred)


def r1_constants_by_site(cx):
    prog = cx.prog
    cyc = A.method(prog, "RotationState", "cycle")
    pm = A.method(prog, "RotationState", "process_message")
    cx.touch(cyc, pm)
    sites = aggregates(prog, "RotatedKey")
    cx.exact("rotated-key-sites", len(sites), 2, "RotatedKey constructions")
    send = [ci for ci, ct in cyc.calls() if callee_is(ct, "RotationState::send")]
    for (b, bi, s) in sites:
        rv = s["rv"]
        flag = op_const(rv["ops"][rv["fields"].index("use_for_sending")])
        if b.did == cyc.did:
            ok = flag == 0
            # on the path that sends a confirmation: dominated by a send() call carrying confirm: Some(..)
            conf = False
            for ci in send:
                if cyc.cfg.dominates(ci, bi):
                    o = origin(cyc, cyc.blocks[ci]["term"]["args"][0])
                    # the message aggregate has confirm = Some(..)
                    for bj, sj, s2 in cyc.stmts():
                        if s2["k"] == "assign" and s2["rv"]["k"] == "aggregate" and s2["rv"].get("adt", "").endswith("RotationMessage") and cyc.cfg.dominates(bj, ci) and bj in cyc.cfg.reachable_from([0]):
                            cop = s2["rv"]["ops"][s2["rv"]["fields"].index("confirm")]
                            oc = origin(cyc, cop)
                            if oc[0] == "rvalue" and oc[2]["rv"].get("variant") == "Some" and cyc.cfg.dominates(bj, bi):
                                conf = True
            cx.check("receive-only-on-confirmation", ok and conf, site_of(b, span=s["span"]),
                     "cycle() emits a key with use_for_sending = false exactly on the path that sends a confirmation")
        elif b.did == pm.did:
            ok = flag == 1
            e_conf = _some_edges(pm, lambda r: r["l"] == 2 and any(e.get("n") == "confirm" for e in r.get("p", []) if e["k"] == "field"))
            # own proposal pending: Some edge on the result of self.proposed.take()
            e_prop = set()
            for ci, ct in pm.calls():
                if callee_is(ct, "option::Option::take") and (lambda r: r is not None and place_is_field(r, "RotationState", "proposed"))(deep_root(pm, ct["args"][0])):
                    e_prop |= _some_edges(pm, lambda r, d=ct["dest"]["l"]: r["l"] == d)
            cx.check("send-only-on-confirmed-own-proposal", ok and dominated_by_edges(pm, e_conf, bi) and dominated_by_edges(pm, e_prop, bi), site_of(b, span=s["span"]),
                     "process_message emits a key with use_for_sending = true only when the message carries a confirmation and an own proposal is pending")
        else:
            cx.check("rotated-key-site:" + b.path, False, site_of(b, span=s["span"]), "RotatedKey constructed outside cycle/process_message")


def r2_installed_before_leaving(cx):
    prog = cx.prog
    rk = A.method(prog, "CryptoCore", "rotate_key")
    callers = [(prog.by_did[c], bb) for (c, bb, kind) in prog.cg.callers.get(rk.did, [])]
    cx.exact("rotate_key-callers", len(callers), 2, "call sites of rotate_key")
    for (cb, bb) in callers:
        cx.touch(cb)
        t = cb.blocks[bb]["term"]
        # id and use_for_sending come unchanged from the RotatedKey value; the key bytes from its .key
        idr = deep_root(cb, t["args"][2])
        ufr = deep_root(cb, t["args"][3])
        ok = idr is not None and ufr is not None and idr["l"] == ufr["l"] and any(e.get("n") == "id" for e in idr.get("p", []) if e["k"] == "field") and any(e.get("n") == "use_for_sending" for e in ufr.get("p", []) if e["k"] == "field")
        cx.check("id-and-flag-unchanged:" + cb.name, ok, site_of(cb, bb), "rotate_key receives the RotatedKey's id and use_for_sending unchanged")
        # key material from rot.key
        tainted_ok = False
        o = origin(cb, t["args"][1])
        if o[0] == "call" and callee_is(o[2], "aead::LessSafeKey::new"):
            o2 = origin(cb, o[2]["args"][0])
            if o2[0] == "call" and callee_is(o2[2], "result::Result::unwrap"):
                o3 = origin(cb, o2[2]["args"][0])
                if o3[0] == "call" and callee_is(o3[2], "aead::UnboundKey::new"):
                    kr = deep_root(cb, o3[2]["args"][1])
                    tainted_ok = kr is not None and idr is not None and kr["l"] == idr["l"] and any(e.get("n") == "key" for e in kr.get("p", []) if e["k"] == "field")
        cx.check("key-material-unchanged:" + cb.name, tainted_ok, site_of(cb, bb), "the installed key is built from the RotatedKey's key bytes")
        # the RotatedKey comes from cycle()/handle_message() and installation happens on every path where it is Some
        okp = False
        if idr is not None:
            R = idr["l"]
            d = defuse(cb).single_def(R)
            prod = None
            if d and d[0] == "call":
                prod = d[2]
                if callee_is(prod, "ops::Try::branch") and prod["args"]:
                    o4 = origin(cb, prod["args"][0])
                    prod = o4[2] if o4[0] == "call" else None
            if prod is not None and callee_is(prod, "RotationState::cycle", "RotationState::handle_message"):
                e_some = _some_edges(cb, lambda r, l=R: r["l"] == l)
                oks = [rbi for kind, rbi, info in result_return_sites(cb) if kind == "ok"]
                okp = bool(e_some)
                for e in e_some:
                    reach = feasible_reach(cb, [cb.cfg.succ[e[1]][e[2]]], avoid_blocks=[bb])
                    if any(r in reach for r in oks):
                        okp = False
        cx.check("always-installed:" + cb.name, okp, site_of(cb, bb), "whenever a rotated key is produced it is installed before the function can return Ok (the reply leaves afterwards)")


def r3_confirmed_key_belongs_to_secret(cx):
    prog = cx.prog
    pm = A.method(prog, "RotationState", "process_message")
    cx.touch(pm)
    st = [(bi, s) for bi, si, s in pm.stmts() if s["k"] == "assign" and place_is_field(s["place"], "RotationState", "pending")]
    cx.exact("pending-stores", len(st), 1, "stores to RotationState.pending in process_message")
    ck = [(ci, ct) for ci, ct in pm.calls() if callee_is(ct, "RotationState::create_key")]
    cx.exact("create_key-calls", len(ck), 1, "create_key calls in process_message")
    for bi, s in st:
        o = origin(pm, s["rv"]["op"]) if s["rv"]["k"] == "use" else None
        ok = False
        if o and o[0] == "rvalue" and o[2]["rv"].get("variant") == "Some":
            tup = origin(pm, o[2]["rv"]["ops"][0])
            if tup[0] == "rvalue" and tup[2]["rv"].get("agg") == "tuple" and len(tup[2]["rv"]["ops"]) == 2 and ck:
                pair = ck[0][1]["dest"]["l"]
                keyo = origin(pm, tup[2]["rv"]["ops"][0])
                pubr = root_place(pm, op_place(tup[2]["rv"]["ops"][1]))
                pub_ok = pubr["l"] == pair and [e["i"] for e in pubr.get("p", []) if e["k"] == "field"] == [1]
                key_ok = False
                if keyo[0] == "call" and callee_is(keyo[2], "RotationState::derive_key"):
                    pr = root_place(pm, op_place(keyo[2]["args"][0]))
                    prop = deep_root(pm, keyo[2]["args"][1])
                    key_ok = pr["l"] == pair and [e["i"] for e in pr.get("p", []) if e["k"] == "field"] == [0] and prop is not None and prop["l"] == 2 and any(e.get("n") == "propose" for e in prop.get("p", []) if e["k"] == "field")
                ok = pub_ok and key_ok
        cx.check("pending=(derive(priv,proposal),pub)", ok, site_of(pm, span=s["span"]),
                 "pending stores the key derived from (own fresh private key, peer proposal) together with the public key of that same create_key() call")
    # cycle confirms exactly the stored public key and installs exactly the stored key
    cyc = A.method(prog, "RotationState", "cycle")
    tk = [(ci, ct) for ci, ct in cyc.calls() if callee_is(ct, "option::Option::take") and (lambda r: r is not None and place_is_field(r, "RotationState", "pending"))(deep_root(cyc, ct["args"][0]))]
    cx.exact("pending-take", len(tk), 1, "pending.take() in cycle")
    for (b, bi, s) in aggregates(prog, "RotatedKey"):
        if b.did != cyc.did or not tk:
            continue
        rv = s["rv"]
        kr = deep_root_through_try(cyc, rv["ops"][rv["fields"].index("key")])
        cx.check("cycle-installs-pending-key", kr is not None and kr["l"] == tk[0][1]["dest"]["l"], site_of(b, span=s["span"]), "the key emitted by cycle() is the pending key")


def r4_stale_ids_ignored(cx):
    prog = cx.prog
    pm = A.method(prog, "RotationState", "process_message")
    ws = write_summary(prog)
    cx.touch(pm)
    # comparison msg.message_id <= self.message_id
    cmp_edges = None
    for bi, si, s in pm.stmts():
        if s["k"] == "assign" and s["rv"]["k"] == "binop" and s["rv"]["op"] in ("Le", "Lt", "Gt", "Ge"):
            ra = root_place(pm, op_place(s["rv"]["a"])) if op_place(s["rv"]["a"]) else None
            rb = root_place(pm, op_place(s["rv"]["b"])) if op_place(s["rv"]["b"]) else None
            names = []
            for r in (ra, rb):
                if r is None:
                    names.append(None)
                elif r["l"] == 1 and place_is_field(r, "RotationState", "message_id"):
                    names.append("own")
                elif r["l"] == 2 and any(e.get("n") == "message_id" for e in r.get("p", []) if e["k"] == "field"):
                    names.append("msg")
                else:
                    names.append(None)
            if set(names) == {"own", "msg"}:
                op = s["rv"]["op"]
                # normalise to: stale iff msg <= own
                stale_true = (op == "Le" and names == ["msg", "own"]) or (op == "Ge" and names == ["own", "msg"])
                fresh_true = (op == "Gt" and names == ["msg", "own"]) or (op == "Lt" and names == ["own", "msg"])
                l = s["place"]["l"]
                for sb in pm.cfg.reach:
                    tt = pm.blocks[sb]["term"]
                    if tt["k"] == "switch" and op_local(tt["discr"]) == l:
                        fe = set()
                        for k, v in enumerate(tt["values"]):
                            if (v == 0 and stale_true) or (v != 0 and fresh_true):
                                fe.add(("e", sb, k))
                        if tt["values"] == [0] and fresh_true:
                            fe.add(("e", sb, 1))
                        if tt["values"] == [0] and stale_true:
                            pass
                        if (stale_true or fresh_true):
                            cmp_edges = fe
    cx.check("stale-test-found", bool(cmp_edges), site_of(pm), "process_message compares the message id with the own id (stale iff msg id <= own id)")
    if not cmp_edges:
        return
    bad = []
    n = 0
    for bi in sorted(pm.cfg.reach):
        blk = pm.blocks[bi]
        for s in blk["stmts"]:
            if s["k"] == "assign" and s["place"].get("p"):
                r = root_place(pm, s["place"])
                if r["l"] == 1 and any(e["k"] == "deref" for e in r.get("p", [])):
                    n += 1
                    if not dominated_by_edges(pm, cmp_edges, bi):
                        bad.append(bi)
        t = blk["term"]
        if t["k"] == "call":
            for reason, ai in ws.call_writes(pm, t):
                r = op_root(pm, t["args"][ai])
                if r is not None and r["l"] == 1:
                    n += 1
                    if not dominated_by_edges(pm, cmp_edges, bi):
                        bad.append(bi)
    cx.floor("state-changes", n, 3, "stores / writing calls through self in process_message")
    cx.check("stale-ignored-before-mutation", not bad, site_of(pm, bad[0]) if bad else site_of(pm), "every state change of process_message is dominated by the 'message id is newer' edge")
    # own ids advance only by a constant in cycle (and the constructor)
    w = field_writes(prog, "RotationState", "message_id")
    fns = sorted(set(b.name for (b, bi, k, s) in w))
    cx.check("id-writers", set(fns) <= {"cycle"}, None, "RotationState.message_id is written only by cycle() (found %s)" % fns)
    cyc = A.method(prog, "RotationState", "cycle")
    adds = [s for bi, si, s in cyc.stmts() if s["k"] == "assign" and s["rv"]["k"] == "binop" and s["rv"]["op"].startswith("Add") and op_place(s["rv"]["a"]) is not None and place_is_field(root_place(cyc, op_place(s["rv"]["a"])), "RotationState", "message_id")]
    cx.check("id-step-two", len(adds) == 1 and op_const(adds[0]["rv"]["b"]) == 2, site_of(cyc), "own message ids advance by the constant 2 per cycle")


def r5_slot_arithmetic(cx):
    prog = cx.prog
    rk = A.method(prog, "CryptoCore", "rotate_key")
    dec = A.method(prog, "CryptoCore", "decrypt")
    cx.touch(rk, dec)

    def moduli(b):
        return sorted(op_const(s["rv"]["b"]) for bi, si, s in b.stmts() if s["k"] == "assign" and s["rv"]["k"] == "binop" and s["rv"]["op"] == "Rem")
    m1, m2 = moduli(rk), moduli(dec)
    core = [a for p, a in prog.adts.items() if p == "crypto::core::CryptoCore"]
    klen = None
    if core:
        for f in core[0]["variants"][0]["fields"]:
            if f["name"] == "keys":
                klen = prog.ty(f["ty"]).d.get("len")
    cx.check("one-modulus", m1 == [klen] and m2 == [klen] and klen is not None, site_of(rk),
             "slot = id mod N with N the number of key slots, in rotate_key (%s), decrypt (%s) and the array type (%s)" % (m1, m2, klen))


def r6_sealed_and_typed(cx):
    prog = cx.prog
    sm = A.method(prog, "PeerCrypto", "send_message")
    cx.touch(sm)
    rot = prog.const_value("MESSAGE_TYPE_ROTATION")
    # user sends assert a different type: a comparison of the type parameter with MESSAGE_TYPE_ROTATION guards a panic
    ok = False
    for bi, si, s in sm.stmts():
        if s["k"] == "assign" and s["rv"]["k"] == "binop" and s["rv"]["op"] in ("Eq", "Ne"):
            vals = [op_const(s["rv"]["a"]), op_const(s["rv"]["b"])]
            if rot in vals:
                ok = True
    # assert_ne! compares through references: look for the constant in promoted operands too
    if not ok:
        for ci, ct in sm.calls():
            if ct.get("callee") and "assert_failed" in ct["callee"]["path"]:
                ok = True
    cx.check("user-type-differs", ok, site_of(sm), "send_message refuses the rotation type for user messages")
    from .c02 import r1_every_wire_write_sealed
    # rotation emissions sealed: shared with C02.R1 (rotation-sealed obligations)


def r7_one_proposal_per_id(cx):
    """A proposal (own ephemeral secret) is created exactly when the own message id advances: the retransmission
    path must re-send the public key of the *stored* secret, never replace it (the peer may already have derived the
    key from the first transmission)."""
    prog = cx.prog
    cyc = A.method(prog, "RotationState", "cycle")
    cx.touch(cyc)
    # functions that may store to RotationState.proposed
    writers = set(b.did for (b, bi, k, s) in field_writes(prog, "RotationState", "proposed"))
    changed = True
    while changed:
        changed = False
        for b in prog.bodies:
            if b.did not in writers and any(c in writers for _k, c, _bb in prog.cg.callees(b.did)):
                if b.did != cyc.did:
                    writers.add(b.did)
                    changed = True
    idst = [bi for bi, si, s in cyc.stmts() if s["k"] == "assign" and place_is_field(s["place"], "RotationState", "message_id")]
    cx.floor("id-advance", len(idst), 1, "stores to message_id in cycle")
    sites = []
    for bi, si, s in cyc.stmts():
        if s["k"] == "assign" and place_is_field(s["place"], "RotationState", "proposed"):
            sites.append((bi, "store"))
    for ci, ct in cyc.calls():
        if any(d in writers for _k, d in prog.cg.resolve(cyc, ct)):
            for a in ct["args"]:
                p = op_place(a)
                if p is not None and cyc.place_ty(p).k == "ref" and cyc.place_ty(p).d.get("mut") and root_place(cyc, p)["l"] == 1:
                    sites.append((ci, "call " + ct["callee"]["name"]))
        if callee_is(ct, "option::Option::take", "option::Option::replace", "option::Option::insert") and ct["args"]:
            r = deep_root(cyc, ct["args"][0])
            if r is not None and place_is_field(r, "RotationState", "proposed"):
                sites.append((ci, "call " + ct["callee"]["name"]))
    cx.floor("proposal-writes", len(sites), 1, "writes of the own proposal in cycle")
    for bi, what in sites:
        cx.check("proposal-only-with-new-id:%s" % what, any(cyc.cfg.dominates(x, bi) for x in idst), site_of(cyc, bi),
                 "cycle() replaces the own proposal only on the path that advances the message id (a retransmission keeps the stored secret)")
    # the retransmitted public key is computed from the stored secret
    cpk = [(ci, ct) for ci, ct in cyc.calls() if callee_is(ct, "RotationState::compute_public_key")]
    ok = False
    for ci, ct in cpk:
        r = deep_root(cyc, ct["args"][0])
        if r is not None and place_is_field(r, "RotationState", "proposed") and not any(cyc.cfg.dominates(x, ci) for x in idst):
            ok = True
    cx.check("retransmit-recomputes-public-key", ok, site_of(cyc), "the retransmission path derives the proposed public key from the stored secret (compute_public_key(&self.proposed))")


def r8_cycle_every_interval(cx):
    """Freshness half of the property: the sealing key is replaced at least every second rotation interval *while
    rotation messages get through* - which needs both ends to run `RotationState::cycle` whenever their interval has
    elapsed (cycle is also what confirms the peer's proposal).  Rule: in PeerCrypto::every_second the tick counter is
    advanced on every tick on which a rotation state exists and no handshake message is pending, and from the edge
    `rotate_counter >= ROTATE_INTERVAL` every path to a return passes the call of cycle()."""
    prog = cx.prog
    pes = A.method(prog, "PeerCrypto", "every_second")
    cyc = A.method(prog, "RotationState", "cycle")
    cx.touch(pes)
    from ..region import edges_where
    iv = prog.const_value("ROTATE_INTERVAL")
    due = edges_where(pes, lambda r: place_is_field(r, "PeerCrypto", "rotate_counter"), "Ge", iv)
    cx.check("interval-test", bool(due), site_of(pes), "every_second compares rotate_counter with ROTATE_INTERVAL (%s)" % iv)
    calls = [ci for ci, ct in pes.calls() if any(d == cyc.did for _k, d in prog.cg.resolve(pes, ct))]
    cx.exact("cycle-calls", len(calls), 1, "calls of RotationState::cycle in PeerCrypto::every_second")
    if due and calls:
        bad = []
        for e in sorted(due):
            reach = feasible_reach(pes, [pes.cfg.succ[e[1]][e[2]]], avoid_blocks=calls)
            bad += [x for x in reach if x in pes.cfg.exits]
        cx.check("cycle-whenever-due", not bad, site_of(pes, calls[0]),
                 "once the interval has elapsed every path to a return runs the rotation cycle (no idle / traffic-dependent skip)")
    # the counter is advanced by exactly one, unconditionally under `rotation is Some`
    incs = []
    for bi, si, s0 in pes.stmts():
        if s0["k"] == "assign" and place_is_field(s0["place"], "PeerCrypto", "rotate_counter") and s0["rv"]["k"] == "use":
            o = origin(pes, s0["rv"]["op"])
            if o[0] == "rvalue" and o[2]["rv"]["k"] == "binop" and o[2]["rv"]["op"].startswith("Add") and op_const(o[2]["rv"]["b"]) == 1:
                incs.append(bi)
    cx.exact("counter-increments", len(incs), 1, "increments of rotate_counter in every_second")
    some_rot = option_some_edges(pes, lambda r: place_is_field(r, "PeerCrypto", "rotation"))
    for bi in incs:
        foreign = []
        for e in pes.cfg.controlling_edges(bi):
            if e in some_rot:
                continue
            tt = pes.blocks[e[1]]["term"]
            if tt["k"] != "switch":
                continue
            foreign.append(e[1])
        # conditions before the rotation block (handshake message pending, init tick error) are those of the
        # reviewed tree; a new condition shows up as a controlling edge between the Some(rotation) test and the increment
        inner = [sb for sb in foreign if any(pes.cfg.dominates(es, sb) for es in some_rot)]
        cx.check("counter-advances-every-tick", bool(some_rot) and not inner, site_of(pes, bi),
                 "the rotation tick counter advances on every tick on which a rotation state exists (no further condition inside that branch)")


RULES = [
    ("C07.R1", r1_constants_by_site, "use_for_sending constants by site"),
    ("C07.R2", r2_installed_before_leaving, "every rotated key is installed, unchanged, before the reply leaves"),
    ("C07.R3", r3_confirmed_key_belongs_to_secret, "the confirmed public key belongs to the stored secret"),
    ("C07.R4", r4_stale_ids_ignored, "stale ids are ignored before any mutation; own ids advance by 2"),
    ("C07.R5", r5_slot_arithmetic, "slot arithmetic agrees (one modulus = number of slots)"),
    ("C07.R6", r6_sealed_and_typed, "rotation messages are typed; user sends cannot use the rotation type"),
    ("C07.R7", r7_one_proposal_per_id, "one proposal per own message id: retransmission keeps the stored secret"),
    ("C07.R8", r8_cycle_every_interval, "the rotation cycle runs on every elapsed interval (no traffic-dependent skip)"),
]

LEVEL_TEXT = ("Static discipline rules on MIR for install-before-announce / switch-on-confirmation: a receive-only key is emitted exactly where a confirmation "
              "is sent, a sending key only when a confirmation for a pending own proposal arrives; every emitted key is installed unchanged under its id "
              "before the reply can leave; the public key confirmed is the one generated together with the secret used; stale message ids are ignored "
              "before any mutation; slot arithmetic uses one modulus equal to the number of slots."
              " Freshness wiring: once the rotation interval has elapsed every feasible path of the tick runs RotationState::cycle.")
LEVEL_NOTE = ("Partial: decides C07.R1-R6. Not decided: slot reuse versus a delayed switch-over across all interleavings of loss/duplication/reordering, and "
              "freshness (a key change at least every second interval) - schedule properties of two state machines.")
TECHNIQUE = "MIR control-dependence, provenance (def-use) and sibling-agreement rules"
