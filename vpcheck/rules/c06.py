"""C06 - cipher negotiation is symmetric and cannot be downgraded (DESIGN.md section 4, C06.R1-R6)."""
from ..engine import site_of
from ..facts import op_place, op_local, op_const, AnchorError
from ..callgraph import callee_is
from ..mirutil import (root_place, op_root, deep_root, origin, defuse, calls_in, success_edges, result_return_sites, aggregates)
from ..region import dominated_by_edges
from .. import anchors as A
from . import c02

BY_CALLS = ("iter::Iterator::max_by", "iter::Iterator::min_by", "slice::<impl [T]>::sort_by", "slice::<impl [T]>::sort_unstable_by")
KEY_CALLS = ("iter::Iterator::max_by_key", "iter::Iterator::min_by_key", "slice::<impl [T]>::sort_by_key")


def _sel(prog):
    return A.method(prog, "InitState", "select_algorithm")


def _reads_component(body, param, idx):
    """The closure body reads tuple component idx of its parameter `param` (a reference to the candidate)."""
    def hit(place):
        r = root_place(body, place)
        if r["l"] != param:
            return False
        fs = [e for e in r.get("p", []) if e["k"] == "field"]
        return bool(fs) and fs[0]["i"] == idx
    for bi, si, s in body.stmts():
        if s["k"] != "assign":
            continue
        rv = s["rv"]
        if rv["k"] in ("ref", "rawptr", "discr") and hit(rv["place"]):
            return True
        for o in ([rv.get("op")] if rv["k"] in ("use", "cast") else [rv.get("a"), rv.get("b")] if rv["k"] == "binop" else rv.get("ops", []) if rv["k"] == "aggregate" else []):
            if o is not None and op_place(o) is not None and hit(op_place(o)):
                return True
    for bi, t in body.calls():
        for a in t["args"]:
            if op_place(a) is not None and hit(op_place(a)):
                return True
    return False


def r2_symmetric_inputs(cx):
    prog = cx.prog
    hi = A.method(prog, "InitState", "handle_init")
    sel = _sel(prog)
    cx.touch(hi, sel)
    calls = [ci for ci, ct in hi.calls() if any(d == sel.did for _k, d in prog.cg.resolve(hi, ct))]
    cx.exact("select-calls", len(calls), 2, "select_algorithm calls in handle_init (ping arm, pong arm)")
    others = [c for (c, bb, k) in prog.cg.callers.get(sel.did, []) if c != hi.did]
    cx.check("one-selector", not others, None, "select_algorithm is the only negotiation routine and is called from handle_init only")
    for ci in calls:
        t = hi.blocks[ci]["term"]
        r = deep_root(hi, t["args"][1])
        ok = r is not None and any(e["k"] == "downcast" and e.get("v") in ("Ping", "Pong") for e in r.get("p", []))
        cx.check("peer-list-from-message", ok, site_of(hi, ci), "the peer's list given to select_algorithm is the one carried by the received ping/pong")
    # per-cipher score = the smaller of own and peer speed: some closure of the selector builds a pair (cipher, score)
    # whose score is one of exactly two speed values, chosen by comparing those same two values.  Shape-agnostic: the
    # pair may be built in the filter_map closure, in a nested `.map` closure (spliced by A13c) or after a spliced helper.
    def rkey(body, op_or_place):
        r = deep_root(body, op_or_place)
        if r is None:
            return None
        return (r["l"], tuple((e["k"], e.get("i")) for e in r.get("p", []) if e["k"] in ("field", "downcast")))
    found = False
    for cb in prog.find_bodies(lambda b: b.path.startswith(sel.path + "::{closure")):
        cmps = []
        for ci, ct in cb.calls():
            c = ct.get("callee")
            if c and c.get("name") in ("lt", "le", "gt", "ge", "min", "partial_cmp") and len(ct["args"]) == 2:
                cmps.append(frozenset(rkey(cb, a) for a in ct["args"]))
        for bi, si, s0 in cb.stmts():
            if s0["k"] == "assign" and s0["rv"]["k"] == "binop" and s0["rv"]["op"] in ("Lt", "Le", "Gt", "Ge"):
                pa, pb = op_place(s0["rv"]["a"]), op_place(s0["rv"]["b"])
                if pa is not None and pb is not None and cb.place_ty(pa).k == "float":
                    cmps.append(frozenset((rkey(cb, pa), rkey(cb, pb))))
        for bi, si, s0 in cb.stmts():
            if s0["k"] == "assign" and s0["rv"]["k"] == "aggregate" and s0["rv"].get("agg") == "tuple" and len(s0["rv"]["ops"]) == 2:
                sp = op_local(s0["rv"]["ops"][1])
                if sp is None or cb.local_ty(sp).k != "float":
                    continue
                roots = set()
                plain = True

                def sources(local, depth=0):
                    """Places a float local can be a copy of, looking through `Some(v)` wrappers and their payload."""
                    nonlocal plain
                    if depth > 6:
                        plain = False
                        return
                    for d in defuse(cb).defs.get(local, []):
                        if not (d[0] == "stmt" and d[3]["rv"]["k"] == "use" and op_place(d[3]["rv"]["op"]) is not None):
                            plain = False
                            continue
                        pl = op_place(d[3]["rv"]["op"])
                        pj = pl.get("p") or []
                        if len(pj) == 2 and pj[0]["k"] == "downcast" and pj[0].get("v") in ("Some", "Ok", "Continue") and pj[1]["k"] == "field":
                            # payload of an Option built in this body: look at what was wrapped
                            wl = [pl["l"]]
                            seenw = set()
                            wrapped = False
                            while wl:
                                x = wl.pop()
                                if x in seenw:
                                    continue
                                seenw.add(x)
                                for dx in defuse(cb).defs.get(x, []):
                                    if dx[0] == "stmt" and dx[3]["rv"]["k"] == "aggregate" and dx[3]["rv"].get("variant") in ("Some", "Ok") and dx[3]["rv"]["ops"] and op_local(dx[3]["rv"]["ops"][0]) is not None:
                                        wrapped = True
                                        sources(op_local(dx[3]["rv"]["ops"][0]), depth + 1)
                                    elif dx[0] == "stmt" and dx[3]["rv"]["k"] == "use" and op_local(dx[3]["rv"]["op"]) is not None:
                                        wl.append(op_local(dx[3]["rv"]["op"]))
                                    elif dx[0] == "call" and callee_is(dx[2], "Try::branch", "ops::Try>::branch") and op_local(dx[2]["args"][0]) is not None:
                                        wl.append(op_local(dx[2]["args"][0]))
                            if not wrapped:
                                roots.add(rkey(cb, pl))
                            continue
                        if not pj and not (1 <= pl["l"] <= cb.arg_count) and defuse(cb).defs.get(pl["l"]) and cb.local_ty(pl["l"]).k == "float" \
                                and all(dz[0] == "stmt" and dz[3]["rv"]["k"] == "use" for dz in defuse(cb).defs.get(pl["l"], [])):
                            # a float temporary that is itself only ever a copy: look at what it copies
                            sources(pl["l"], depth + 1)
                            continue
                        roots.add(rkey(cb, pl))
                sources(sp)
                if plain and len(roots) == 2 and None not in roots and frozenset(roots) in cmps:
                    found = True
                    cx.check("score-is-min-of-both", True, site_of(cb, span=s0["span"]),
                             "the candidate's score is one of the own and the peer's speed for that cipher, selected by comparing the two")
    if not found:
        cx.check("score-is-min-of-both", False, site_of(sel), "no closure of select_algorithm builds (cipher, min(own speed, peer speed))")


def r3_order_independent(cx):
    prog = cx.prog
    sel = _sel(prog)
    cx.touch(sel)
    folds = [(ci, ct) for ci, ct in sel.calls() if callee_is(ct, *(BY_CALLS + KEY_CALLS))]
    cx.floor("folds", len(folds), 1, "max_by/min_by/sort_by folds over the candidate list in select_algorithm")
    for ci, ct in folds:
        cl = op_root(sel, ct["args"][-1])
        d = defuse(sel).single_def(cl["l"]) if cl is not None else None
        cb = None
        if d and d[0] == "stmt" and d[3]["rv"]["k"] == "aggregate" and d[3]["rv"].get("agg") == "closure":
            cb = prog.by_did.get(d[3]["rv"]["closure_did"])
        shift = 0
        if cb is None and ct["args"][-1].get("k") == "const" and ct["args"][-1].get("fn"):
            # a named comparator function passed as a value: max_by(Self::compare_candidates)
            hits = [b for b in prog.bodies if b.path == ct["args"][-1]["fn"] and b.kind != "closure"]
            if len(hits) == 1:
                cb = hits[0]
                shift = -1   # no closure environment parameter
        if cb is None:
            cx.check("comparator-found", False, site_of(sel, ci), "the ordering used by the fold is neither a closure nor a local function (unrecognised idiom)")
            continue
        cx.touch(cb)
        nested = [b for b in prog.bodies if b.path.startswith(cb.path + "::{closure")]
        if callee_is(ct, *BY_CALLS):
            params = (2 + shift, 3 + shift)
        else:
            params = (2 + shift,)
        for p in params:
            reads = _reads_component(cb, p, 0)
            cx.check("comparator-reads-cipher:arg%d" % (p - 1), reads, site_of(cb),
                     "the ordering of the fold reads the cipher component of its argument %d: with equal speeds the result must not depend on the order of "
                     "the (user-ordered) list, otherwise two nodes with differently ordered lists select different ciphers" % (p - 1))
        # the ordering must be a composition of total orders: no arithmetic on the speeds (tolerance-based
        # "near ties" are not transitive, which makes max_by depend on the list order again)
        closure_dids = prog.cg.closure([cb.did], kinds=("direct", "closure", "fnitem"))
        arith = []
        for d in closure_dids:
            fb = prog.by_did[d]
            if fb.file not in ("src/crypto/init.rs", "src/crypto/common.rs"):
                continue
            for bi, si, s2 in fb.stmts():
                if s2["k"] == "assign" and s2["rv"]["k"] == "binop" and s2["rv"]["op"] in ("Add", "Sub", "Mul", "Div", "Rem"):
                    pa = op_place(s2["rv"]["a"])
                    ty = fb.place_ty(pa) if pa is not None else (prog.ty(s2["rv"]["a"]["ty"]) if s2["rv"]["a"]["k"] == "const" else None)
                    if ty is not None and ty.k == "float":
                        arith.append(site_of(fb, span=s2["span"]))
            for bi, t2 in fb.calls():
                c2 = t2.get("callee") or {}
                if c2.get("path", "").startswith(("std::f32::<impl f32>::", "core::f32::<impl f32>::")) and c2.get("name") in ("abs", "max", "min", "round", "floor", "ceil", "trunc", "signum", "clamp", "mul_add"):
                    arith.append(site_of(fb, bi))
        cx.check("ordering-is-exact", not arith, arith[0] if arith else site_of(cb),
                 "the fold's ordering uses exact comparisons only (found float arithmetic at %s)" % arith if arith else "the fold's ordering uses exact comparisons only (no arithmetic / tolerance on the speeds)")


def r4_lists_inside_signed_range(cx):
    prog = cx.prog
    wt = A.method(prog, "InitMsg", "write_to")
    cx.touch(wt)
    signs = [(ci, ct) for ci, ct in wt.calls() if callee_is(ct, "signature::Ed25519KeyPair::sign")]
    cx.exact("sign-calls", len(signs), 1, "Ed25519KeyPair::sign calls in write_to")
    for ci, ct in signs:
        # signed slice = buffer[0..pos] with pos = position()
        o = origin(wt, ct["args"][1])
        pos_call = None
        if o[0] == "call" and callee_is(o[2], "ops::Index::index"):
            rng = origin(wt, o[2]["args"][1])
            if rng[0] == "rvalue" and rng[2]["rv"].get("adt", "").endswith("ops::Range") and op_const(rng[2]["rv"]["ops"][0]) == 0:
                eo = origin(wt, rng[2]["rv"]["ops"][1])
                if eo[0] == "call" and callee_is(eo[2], "io::Cursor::position"):
                    pos_call = eo[1]
        cx.check("signed-prefix", pos_call is not None, site_of(wt, ci), "the signature covers buffer[0..position()]")
        if pos_call is None:
            continue
        after = wt.cfg.reachable_from([pos_call]) - {pos_call}
        late = [wi for wi, wtm in wt.calls() if wi in after and callee_is(wtm, "WriteBytesExt::write_f32", "WriteBytesExt::write_u16", "WriteBytesExt::write_u32", "WriteBytesExt::write_u64")]
        cx.check("nothing-but-signature-after", not late, site_of(wt, pos_call), "no field (in particular no cipher list entry) is written after the end of the signed range")
        f32w = [wi for wi, wtm in wt.calls() if callee_is(wtm, "WriteBytesExt::write_f32")]
        cx.floor("speed-writes", len(f32w), 2, "write_f32 (speed) sites in write_to")
    # reader side: C01.R2 (position after the field loop) - re-stated for the cipher list
    rf = A.method(prog, "InitMsg", "read_from")
    pos = [ci for ci, ct in rf.calls() if callee_is(ct, "io::Cursor::position")]
    cx.exact("reader-position", len(pos), 1, "position() calls in read_from")
    for p in pos:
        after = rf.cfg.reachable_from([p]) - {p}
        late = [ri for ri, rt in rf.calls() if ri in after and callee_is(rt, "ReadBytesExt::read_f32")]
        cx.check("reader-lists-before-signed-end", not late, site_of(rf, p), "the cipher list is parsed before the end of the signed range is taken")


def _static_of(body, op):
    o = origin(body, op)
    if o[0] == "const":
        return o[1].get("static")
    if o[0] == "place":
        return None
    if o[0] == "rvalue" and o[2]["rv"]["k"] == "ref":
        return None
    return None


def r5_wire_id_tables(cx):
    prog = cx.prog
    wt = A.method(prog, "InitMsg", "write_to")
    rf = A.method(prog, "InitMsg", "read_from")
    cx.touch(wt, rf)
    # encoder: write_u8(const) dominated by the true edge of `*algo == &STATIC`
    enc = {}
    for ci, ct in wt.calls():
        c = ct.get("callee")
        if c and c.get("name") == "eq" and (c.get("trait") or "").endswith("cmp::PartialEq") and len(ct["args"]) == 2:
            st = None
            for a in ct["args"]:
                r = deep_root(wt, a)
                # &&STATIC through promoted / temporaries
                cur = a
                for _ in range(6):
                    o = origin(wt, cur)
                    if o[0] == "const" and o[1].get("static"):
                        st = o[1]["static"]
                        break
                    if o[0] == "rvalue" and o[2]["rv"]["k"] == "ref":
                        cur = {"k": "copy", "place": o[2]["rv"]["place"]}
                        continue
                    if o[0] == "const" and "promoted" in o[1]:
                        pb = wt.promoted[o[1]["promoted"]]
                        for bi2, si2, s2 in pb.stmts():
                            if s2["k"] == "assign" and s2["rv"]["k"] == "use" and s2["rv"]["op"]["k"] == "const" and s2["rv"]["op"].get("static"):
                                st = s2["rv"]["op"]["static"]
                        break
                    break
            if st is None:
                continue
            te = success_edges(wt, ci).ok_edges
            for wi, wtm in wt.calls():
                if callee_is(wtm, "WriteBytesExt::write_u8") and dominated_by_edges(wt, te, wi) and op_const(wtm["args"][1]) is not None:
                    # nearest: not dominated by another later equality's true edge
                    enc.setdefault(st, set()).add(op_const(wtm["args"][1]))
            # `let id = if *algo == &A {1} else if ..; w.write_u8(id)`: the constant is assigned under the true edge
            for wi, wtm in wt.calls():
                if not callee_is(wtm, "WriteBytesExt::write_u8") or op_place(wtm["args"][1]) is None:
                    continue
                l = op_place(wtm["args"][1])["l"]
                for _ in range(8):
                    sd = defuse(wt).single_def(l)
                    if sd and sd[0] == "stmt" and sd[3]["rv"]["k"] == "use" and op_local(sd[3]["rv"]["op"]) is not None and not op_place(sd[3]["rv"]["op"]).get("p"):
                        l = op_local(sd[3]["rv"]["op"])
                    else:
                        break
                for d in defuse(wt).defs.get(l, []):
                    if d[0] == "stmt" and d[3]["rv"]["k"] == "use" and op_const(d[3]["rv"]["op"]) is not None and dominated_by_edges(wt, te, d[1]):
                        enc.setdefault(st, set()).add(op_const(d[3]["rv"]["op"]))
    enc = {k: min(v) if len(v) == 1 else sorted(v) for k, v in enc.items()}
    # plain: write_u8(0) under allow_unencrypted
    from ..region import bool_place_edges
    from ..mirutil import place_is_field
    te, fe = bool_place_edges(wt, lambda r: place_is_field(r, "Algorithms", "allow_unencrypted"))
    plain_ids = set()
    for wi, wtm in wt.calls():
        if callee_is(wtm, "WriteBytesExt::write_u8") and dominated_by_edges(wt, te, wi) and op_const(wtm["args"][1]) is not None:
            f32s = [x for x, xt in wt.calls() if callee_is(xt, "WriteBytesExt::write_f32") and dominated_by_edges(wt, te, x)]
            if f32s:
                plain_ids.add(op_const(wtm["args"][1]))
    # decoder: switch on the id byte inside the algorithms part
    dec = {}
    dec_plain = set()
    # the boolean local that becomes Algorithms.allow_unencrypted of the decoded message
    plain_locals = set()
    for (b2, bi2, s2) in aggregates(prog, "Algorithms"):
        if b2.did == rf.did:
            rv2 = s2["rv"]
            r2 = op_root(rf, rv2["ops"][rv2["fields"].index("allow_unencrypted")])
            if r2 is not None:
                plain_locals.add(r2["l"])
    for sb in rf.cfg.reach:
        tt = rf.blocks[sb]["term"]
        if tt["k"] != "switch" or len(tt["values"]) < 3:
            continue
        l = op_local(tt["discr"])
        if l is None or rf.local_ty(l).k != "int" or rf.local_ty(l).d["bits"] != 8:
            continue
        statics = {}
        plain_here = set()
        for k, v in enumerate(tt["values"]):
            e = ("e", sb, k)
            tgt = rf.cfg.succ[sb][k]
            for bi2 in rf.cfg.reach:
                if not rf.cfg.dominates(e, bi2):
                    continue
                for s2 in rf.blocks[bi2]["stmts"]:
                    if s2["k"] == "assign" and s2["rv"]["k"] == "aggregate" and s2["rv"].get("agg") == "tuple":
                        # `list.push((&CIPHER, speed))` directly in the arm
                        for o2 in s2["rv"]["ops"]:
                            cur = o2
                            for _ in range(4):
                                o = origin(rf, cur)
                                if o[0] == "const" and o[1].get("static"):
                                    statics[v] = o[1]["static"]
                                    break
                                if o[0] == "rvalue" and o[2]["rv"]["k"] == "ref":
                                    cur = {"k": "copy", "place": o[2]["rv"]["place"]}
                                    continue
                                break
                    if s2["k"] == "assign" and s2["rv"]["k"] == "aggregate" and s2["rv"].get("variant") == "Some" and s2["rv"]["ops"]:
                        cur = s2["rv"]["ops"][0]
                        for _ in range(4):
                            o = origin(rf, cur)
                            if o[0] == "const" and o[1].get("static"):
                                statics[v] = o[1]["static"]
                                break
                            if o[0] == "rvalue" and o[2]["rv"]["k"] == "ref":
                                cur = {"k": "copy", "place": o[2]["rv"]["place"]}
                                continue
                            break
                    if s2["k"] == "assign" and s2["rv"]["k"] == "use" and op_const(s2["rv"]["op"]) == 1 and s2["place"]["l"] in plain_locals and not s2["place"].get("p"):
                        plain_here.add(v)
        if statics:
            dec = statics
            dec_plain = plain_here
    cx.check("encoder-table", len(enc) == 3 and all(isinstance(v, int) for v in enc.values()), site_of(wt), "encoder maps each cipher to one id byte (%s)" % enc)
    cx.check("decoder-table", len(dec) == 3, site_of(rf), "decoder maps three id bytes to ciphers (%s)" % dec)
    inv = {v: k for k, v in enc.items() if isinstance(v, int)}
    cx.check("tables-inverse", bool(dec) and inv == dec, site_of(rf), "decoder table is the inverse of the encoder table")
    cx.check("plain-id", plain_ids == {0} and dec_plain == {0}, site_of(rf), "plain is announced and recognised as id 0 (encoder %s, decoder %s)" % (sorted(plain_ids), sorted(dec_plain)))
    allids = set(dec) | dec_plain
    cx.check("ids-distinct", len(allids) == 4, site_of(rf), "the four ids are distinct (%s)" % sorted(allids))


def _id_switch(rf, within=None):
    """The decoder's switch on the cipher id byte (u8, at least three listed values)."""
    best = None
    for sb in sorted(rf.cfg.reach if within is None else within):
        tt = rf.blocks[sb]["term"]
        if tt["k"] != "switch" or len(tt["values"]) < 3:
            continue
        l = op_local(tt["discr"])
        if l is None or rf.local_ty(l).k != "int" or rf.local_ty(l).d["bits"] != 8:
            continue
        if set(tt["values"]) >= {1, 2, 3}:
            best = sb
    return best


def r7_every_advertised_cipher_considered(cx):
    """Both ends must negotiate over the same lists: the decoder may drop a list entry only because of its id byte
    (plain marker / unknown cipher), never because of its position, the number of entries kept so far or its
    speed.  Control-dependence rule: inside the list loop of InitMsg::read_from, every branch that decides
    whether an entry is pushed (or whether the loop is left without an error) tests a value derived from the id
    byte of that entry."""
    from ..mirutil import forward_taint, loops_of, result_return_sites
    prog = cx.prog
    rf = A.method(prog, "InitMsg", "read_from")
    cx.touch(rf)
    cfg = rf.cfg
    # the list local: the algorithm_speeds operand of the decoded Algorithms value
    lists = set()
    for (b2, bi2, s2) in aggregates(prog, "Algorithms"):
        if b2.did == rf.did:
            rv2 = s2["rv"]
            r2 = op_root(rf, rv2["ops"][rv2["fields"].index("algorithm_speeds")])
            if r2 is not None:
                lists.add(r2["l"])
    pushes = []
    for ci, ct in rf.calls():
        if callee_is(ct, "smallvec::SmallVec::push", "vec::Vec::push") and ct["args"]:
            r = deep_root(rf, ct["args"][0])
            if r is not None and r["l"] in lists:
                pushes.append(ci)
    cx.floor("list-pushes", len(pushes), 1, "pushes into the decoded cipher list")
    if not pushes:
        return
    loops = [li for li in loops_of(rf) if all(p in li.blocks for p in pushes)]
    loops.sort(key=lambda li: len(li.blocks))
    cx.check("list-loop", bool(loops), site_of(rf, pushes[0]), "the push sits in a loop over the wire entries")
    if not loops:
        return
    li = loops[0]
    sb = _id_switch(rf, li.blocks)
    cx.check("id-switch", sb is not None, site_of(rf), "the decoder switches on the id byte of each entry")
    if sb is None:
        return
    id_local = op_local(rf.blocks[sb]["term"]["discr"])
    # locals assigned under the control of the id switch (the Option<cipher>, the plain flag)
    seeds = {id_local}
    nsucc = len(cfg.succ[sb])
    sb_succs = cfg.succ.get(sb, [])
    for b in cfg.reach:
        # control-dependent on the id switch: b post-dominates one of its successors but not the switch itself
        if any(cfg.postdominates(b, t) for t in sb_succs) and not (cfg.postdominates(b, sb) and b != sb):
            for st in rf.blocks[b]["stmts"]:
                if st["k"] == "assign":
                    seeds.add(st["place"]["l"])
            tt = rf.blocks[b]["term"]
            if tt["k"] == "call":
                seeds.add(tt["dest"]["l"])
    derived = forward_taint(rf, seed_locals=sorted(seeds), mut_args=False)
    err_defs = {bi for (k, bi, _i) in result_return_sites(rf) if k in ("err", "residual")}
    ok_defs = {bi for (k, bi, _i) in result_return_sites(rf) if k not in ("err", "residual")}
    PB = set(pushes)
    pb = pushes[0]
    exhaust = set(li.exhaust_exits)
    bad = []
    checked = 0

    inside = set(li.blocks)
    outside = [x for x in cfg.reach if x not in inside]
    exhaust_targets = {dst for (_src, dst) in li.exhaust_exits}

    for s2 in sorted(li.blocks):
        tt = rf.blocks[s2]["term"]
        if tt["k"] != "switch":
            continue
        succs = cfg.succ[s2]
        if any((s2, t) in exhaust for t in succs):
            continue
        can_push, skip_only = [], []
        for k, t in enumerate(succs):
            if t not in inside:
                # leaving the loop: towards the continuation of a complete scan (a `break`) or towards an error
                if t in exhaust_targets:
                    skip_only.append(k)
                continue
            r_in = cfg.reachable_from([t], avoid_blocks=outside + [li.header])
            if t in PB or (PB & r_in):
                can_push.append(k)
            else:
                r_skip = cfg.reachable_from([t], avoid_blocks=outside + list(PB))
                if li.header in r_skip or t == li.header or (r_skip & exhaust_targets):
                    skip_only.append(k)
        if not can_push or not skip_only:
            continue
        checked += 1
        dl = op_local(tt["discr"])
        if dl is None or dl not in derived:
            bad.append(s2)
    # ... and the loop visits every entry of the field: its bound, as a term over the field length, is len / 5
    from ..arith import term_of, evaluate, leaves, show
    from ..mirutil import iter_source
    src = iter_source(rf, li)
    bound_ok, bound_txt = False, "loop bound not recognised"
    if src is not None and not src.get("p"):
        dsrc = defuse(rf).single_def(src["l"])
        if dsrc and dsrc[0] == "stmt" and dsrc[3]["rv"]["k"] == "aggregate" and dsrc[3]["rv"].get("adt", "").endswith("ops::Range"):
            lo, hi = dsrc[3]["rv"]["ops"]
            th = term_of(rf, hi, auto_vars=True)
            vs = sorted({x[1] for x in leaves(th) if x[0] == "var"})
            bound_txt = show(th)
            if op_const(lo) == 0 and len(vs) == 1 and not [x for x in leaves(th) if x[0] not in ("c", "var")]:
                bound_ok = all(evaluate(th, {vs[0]: n}) == n // 5 for n in list(range(0, 200)) + [65535, 65534, 1000])
    cx.check("every-entry-visited", bound_ok, site_of(rf, li.header),
             "the list loop runs once per 5-byte entry of the field (bound = field length / 5 for every length; found %s)" % bound_txt, how="arith")
    cx.floor("push-deciding-branches", checked, 1, "branches inside the list loop that decide whether an entry is kept")
    cx.check("entry-kept-by-id-only", not bad, site_of(rf, bad[0]) if bad else site_of(rf, pb),
             "whether an advertised cipher is kept depends on its id byte only (not on its position, the entries kept so far or its speed): %d deciding branch(es), %d foreign" % (checked, len(bad)))


def r6_failure_iff_no_common(cx):
    prog = cx.prog
    sel = _sel(prog)
    errs = [(b, bi, s) for (b, bi, s) in aggregates(prog, "Error", "CryptoInitFatal") if b.did == sel.did]
    cx.exact("fatal-sites", len(errs), 1, "CryptoInitFatal constructions in select_algorithm")
    folds = [(ci, ct) for ci, ct in sel.calls() if callee_is(ct, *(BY_CALLS + KEY_CALLS))]
    for (b, bi, s) in errs:
        ok = False
        for ci, ct in folds:
            oc = success_edges(sel, ci)
            if dominated_by_edges(sel, oc.err_edges, bi):
                ok = True
        cx.check("error-only-when-fold-empty", ok, site_of(sel, span=s["span"]), "select_algorithm fails only on the path where the fold over common ciphers returned None")
    # and every Some(..) of the fold is returned as Ok(Some(..))
    for ci, ct in folds:
        oc = success_edges(sel, ci)
        bad = []
        for e in oc.ok_edges:
            reach = sel.cfg.reachable_from_edge(e, avoid_edges=oc.err_edges)
            for kind, rbi, info in result_return_sites(sel):
                if kind == "err" and rbi in reach:
                    bad.append(rbi)
        cx.check("common-cipher-never-fails", not bad, site_of(sel, ci), "when a common cipher exists select_algorithm returns Ok")


RULES = [
    ("C06.R1", c02.r2_plain_only_by_consent, "plain only if both sides allow it (= C02.R2)"),
    ("C06.R2", r2_symmetric_inputs, "both arms call the one select_algorithm; score = min(own, peer)"),
    ("C06.R3", r3_order_independent, "the fold's ordering reads the cipher identity of both candidates (total order, no list-order dependence)"),
    ("C06.R4", r4_lists_inside_signed_range, "cipher lists are written/read inside the signed range"),
    ("C06.R5", r5_wire_id_tables, "encoder and decoder cipher-id tables are mutual inverses; plain = 0"),
    ("C06.R6", r6_failure_iff_no_common, "failure iff the fold over common ciphers is empty"),
    ("C06.R7", r7_every_advertised_cipher_considered, "the decoder keeps every advertised cipher: an entry is dropped because of its id byte only"),
]

LEVEL_TEXT = ("Static sibling-agreement and dependence rules on MIR: plain mode needs both flags; one selection routine serves both handshake arms with "
              "min(own, peer) as score; the ordering used by the fold over the user-ordered list must read the cipher identity of both candidates (else "
              "ties are broken by list order and two nodes can select different ciphers); the cipher lists lie inside the signed range; the wire id "
              "tables of encoder and decoder are inverse; failure only when the fold is empty."
              " The decoder keeps every advertised cipher: the list loop runs field-length / 5 times (term equivalence) and an entry is dropped because of its id byte only.")
LEVEL_NOTE = "Decides C06.R1-R6 (necessary conditions). Not decided: which cipher wins for given speeds (value clause); NaN speeds are excluded by the property."
TECHNIQUE = "MIR closure read-set analysis (comparator totality), constant table extraction and sibling agreement, dominance"
