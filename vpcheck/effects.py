"""A10: path-wise effect summaries of small kernel functions.

For a function with an acyclic (non-cleanup) CFG every entry-to-return path is enumerated (bound 64) and a
symbolic store over places rooted at the parameters is computed: uninterpreted applications for opaque calls,
exact models for mem::swap / mem::replace / mem::take, Clone::clone, assignment. The result per path is
(conditions, final field terms, return kind). Nothing is ever concrete; no solver is involved."""
from .facts import op_place, op_local, op_const
from .callgraph import callee_is, strip_generics
from .mirutil import root_place, defuse, success_edges, _ty_kind


class Unsupported(Exception):
    pass


def enumerate_paths(body, bound=64):
    cfg = body.cfg
    if cfg.loops():
        raise Unsupported("function has a loop")
    paths = []
    stack = [[0]]
    while stack:
        p = stack.pop()
        b = p[-1]
        succs = cfg.succ.get(b, [])
        if not succs:
            if body.blocks[b]["term"]["k"] == "return":
                paths.append(p)
            continue
        for s in succs:
            stack.append(p + [s])
        if len(paths) + len(stack) > bound * 4:
            raise Unsupported("too many paths")
    if len(paths) > bound:
        raise Unsupported("too many paths")
    return paths


class SymExec:
    """Symbolic execution of one path over terms. Terms are nested tuples / strings:
       'p1.field'   initial value of a place rooted at parameter 1
       ('app', f, t1, ...)   uninterpreted application"""

    def __init__(self, body, names=None):
        self.body = body
        self.names = names or {}
        self.loc = {}      # local -> term
        self.mem = {}      # place key (param, fields) -> term
        self.refs = {}     # local -> place key it points to (for &/&mut temporaries)
        self.lrefs = {}    # local -> plain local it points to
        self.conds = []
        self.calls = []
        self.ret = None

    def pname(self, l):
        return self.names.get(l, "p%d" % l)

    def key_of_place(self, place):
        """Resolve a place to a memory key rooted at a parameter, or None."""
        body = self.body
        l = place["l"]
        fields = []
        projs = place.get("p", [])
        base = None
        if l in self.refs:
            base = self.refs[l]
            # first deref consumes the reference
            rest = projs[1:] if projs and projs[0]["k"] == "deref" else projs
        elif 1 <= l <= body.arg_count:
            base = (l, ())
            rest = [e for e in projs]
            if rest and rest[0]["k"] == "deref":
                rest = rest[1:]
        else:
            return None
        path = list(base[1])
        for e in rest:
            if e["k"] == "deref":
                continue
            if e["k"] == "field":
                path.append(str(e.get("n", e["i"])))
            elif e["k"] == "downcast":
                path.append("@" + str(e.get("v", e["i"])))
            else:
                return None
        return (base[0], tuple(path))

    def key_name(self, key):
        return ".".join([self.pname(key[0])] + list(key[1]))

    def read_key(self, key):
        if key in self.mem:
            return self.mem[key]
        # a prefix may have been written as a whole
        for k2, t in self.mem.items():
            if k2[0] == key[0] and key[1][:len(k2[1])] == k2[1] and len(k2[1]) < len(key[1]):
                return ("proj", t) + key[1][len(k2[1]):]
        return self.key_name(key)

    def read_place(self, place):
        l = place["l"]
        if not place.get("p") and l in self.loc:
            return self.loc[l]
        key = self.key_of_place(place)
        if key is not None:
            return self.read_key(key)
        if l in self.loc:
            return ("proj", self.loc[l]) + tuple(str(e.get("n", e.get("i", e["k"]))) for e in place.get("p", []))
        return "_%d" % l

    def op(self, o):
        if o["k"] == "const":
            if "v" in o and isinstance(o["v"], int):
                return ("const", o["v"])
            if "str" in o:
                return ("const", o["str"])
            if "static" in o:
                return ("static", o["static"])
            if "fn" in o:
                return ("fn", o["fn"])
            return ("const", o.get("text", "?"))
        return self.read_place(o["place"])

    def write(self, place, term):
        if not place.get("p"):
            self.loc[place["l"]] = term
            self.refs.pop(place["l"], None)
            return
        key = self.key_of_place(place)
        if key is None:
            raise Unsupported("store to untracked place")
        # kill sub-keys
        for k2 in [k for k in self.mem if k[0] == key[0] and k[1][:len(key[1])] == key[1]]:
            del self.mem[k2]
        self.mem[key] = term

    def stmt(self, s):
        if s["k"] != "assign":
            return
        rv = s["rv"]
        k = rv["k"]
        dst = s["place"]
        if k in ("ref", "rawptr"):
            key = self.key_of_place(rv["place"])
            if key is not None and not dst.get("p"):
                self.refs[dst["l"]] = key
                self.loc[dst["l"]] = ("ref", self.key_name(key))
                return
            # reference to a plain local (or a reborrow of one)
            rp = rv["place"]
            if not dst.get("p"):
                if not rp.get("p"):
                    self.lrefs[dst["l"]] = rp["l"]
                elif rp["l"] in self.lrefs and all(e["k"] == "deref" for e in rp["p"]):
                    self.lrefs[dst["l"]] = self.lrefs[rp["l"]]
            self.write(dst, ("ref", self.read_place(rv["place"])))
            return
        if k == "use":
            sp = op_place(rv["op"])
            src_ref = self.refs.get(sp["l"]) if sp is not None and not sp.get("p") else None
            src_lref = self.lrefs.get(sp["l"]) if sp is not None and not sp.get("p") else None
            self.write(dst, self.op(rv["op"]))
            if not dst.get("p"):
                # a moved / copied reference still points to the same place
                if src_ref is not None:
                    self.refs[dst["l"]] = src_ref
                if src_lref is not None:
                    self.lrefs[dst["l"]] = src_lref
            return
        if k == "aggregate":
            ops = tuple(self.op(o) for o in rv["ops"])
            name = rv.get("variant") if rv.get("agg") == "adt" else rv.get("agg")
            if rv.get("agg") == "adt" and not rv.get("is_enum"):
                name = rv["adt"].split("::")[-1]
            self.write(dst, ("mk", name) + ops)
            return
        if k == "binop":
            self.write(dst, ("op", rv["op"], self.op(rv["a"]), self.op(rv["b"])))
            return
        if k == "unop":
            self.write(dst, ("op", rv["op"], self.op(rv["a"])))
            return
        if k == "cast":
            self.write(dst, self.op(rv["op"]))
            return
        if k == "discr":
            self.write(dst, ("discr", self.read_place(rv["place"])))
            return
        self.write(dst, ("?", k))

    def call(self, t):
        c = t.get("callee") or {}
        name = strip_generics(c.get("resolved") or c.get("path", "?"))
        short = strip_generics(c.get("path", "?"))
        args = t["args"]
        argt = [self.op(a) for a in args]
        argkeys = []
        arglocals = []
        for a in args:
            p = op_place(a)
            key = None
            if p is not None and not p.get("p") and p["l"] in self.refs:
                key = self.refs[p["l"]]
            argkeys.append(key)
            arglocals.append(self.lrefs.get(p["l"]) if p is not None and not p.get("p") else None)
        # references to locals read the local's current term
        argt = [self.loc.get(al, tm) if al is not None else tm for al, tm in zip(arglocals, argt)]
        dest = t["dest"]
        if short.endswith("mem::swap") and argkeys[0] is not None and argkeys[1] is not None:
            a, b = self.read_key(argkeys[0]), self.read_key(argkeys[1])
            self.mem[argkeys[0]] = b
            self.mem[argkeys[1]] = a
            self.write(dest, ("unit",))
            return
        if short.endswith("mem::replace") and argkeys[0] is not None:
            old = self.read_key(argkeys[0])
            self.mem[argkeys[0]] = argt[1]
            self.write(dest, old)
            return
        if (short.endswith("mem::take") or short.endswith("option::Option::take")) and argkeys[0] is not None:
            old = self.read_key(argkeys[0])
            self.mem[argkeys[0]] = ("mk", "None") if short.endswith("Option::take") else ("default",)
            self.write(dest, old)
            return
        if short.endswith("clone::Clone::clone") and argkeys[0] is not None:
            self.write(dest, self.read_key(argkeys[0]))
            return
        if short.endswith("clone::Clone::clone"):
            t0 = argt[0]
            if isinstance(t0, tuple) and t0[0] == "ref":
                t0 = t0[1]
            self.write(dest, t0)
            return
        # opaque call: result is an application; &mut arguments are updated by an application too
        fname = short.split("::")[-1] if "::" in short else short
        full = short
        vals = []
        for a, key, tm in zip(args, argkeys, argt):
            vals.append(self.read_key(key) if key is not None else tm)
        self.calls.append((full, tuple(vals)))
        res = ("app", full) + tuple(vals)
        for i, (a, key) in enumerate(zip(args, argkeys)):
            p = op_place(a)
            if key is not None and p is not None:
                ty = self.body.place_ty(p)
                if ty.k == "ref" and ty.d.get("mut"):
                    self.mem[key] = ("upd", full, i) + tuple(vals)
            elif p is not None and arglocals[i] is not None:
                ty = self.body.place_ty(p)
                if ty.k == "ref" and ty.d.get("mut"):
                    self.loc[arglocals[i]] = ("upd", full, i) + tuple(vals)
        self.write(dest, res)

    def run(self, path):
        body = self.body
        for i, bi in enumerate(path):
            blk = body.blocks[bi]
            for s in blk["stmts"]:
                self.stmt(s)
            t = blk["term"]
            nxt = path[i + 1] if i + 1 < len(path) else None
            if t["k"] == "call":
                self.call(t)
            elif t["k"] == "switch":
                dt = self.op(t["discr"])
                succs = body.cfg.succ.get(bi, [])
                # which value?
                taken = None
                for k, v in enumerate(t["values"]):
                    if k < len(succs) and succs[k] == nxt:
                        taken = v
                        break
                if taken is None:
                    taken = ("not", tuple(t["values"]))
                self.conds.append((dt, taken))
            elif t["k"] == "assert":
                pass
            elif t["k"] == "return":
                self.ret = self.loc.get(0, ("unit",))
        return self


def summarise(body, names=None):
    """List of path summaries: dict(conds, mem (name -> term), ret, calls)."""
    out = []
    for p in enumerate_paths(body):
        se = SymExec(body, names).run(p)
        mem = {se.key_name(k): v for k, v in se.mem.items() if v != se.key_name(k)}
        out.append({"conds": se.conds, "mem": mem, "ret": se.ret, "calls": se.calls, "path": p})
    return out


def term_str(t):
    if isinstance(t, tuple):
        if t[0] == "app":
            return "%s(%s)" % (t[1].split("::")[-1], ", ".join(term_str(x) for x in t[2:]))
        if t[0] == "upd":
            return "%s!%d(%s)" % (t[1].split("::")[-1], t[2], ", ".join(term_str(x) for x in t[3:]))
        if t[0] == "mk":
            return "%s{%s}" % (t[1], ", ".join(term_str(x) for x in t[2:]))
        if t[0] == "const":
            return repr(t[1])
        if t[0] == "op":
            return "%s(%s)" % (t[1], ", ".join(term_str(x) for x in t[2:]))
        if t[0] == "discr":
            return "discr(%s)" % term_str(t[1])
        if t[0] == "ref":
            return "&" + term_str(t[1])
        return "(" + " ".join(term_str(x) for x in t) + ")"
    return str(t)


def ret_kind(t):
    """'Ok' / 'Err' / other for a return term."""
    if isinstance(t, tuple):
        if t[0] == "mk" and t[1] in ("Ok", "Err", "Some", "None"):
            return t[1]
        if t[0] == "app" and t[1].endswith("from_residual"):
            return "Err"
    return "?"
