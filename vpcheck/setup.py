"""setup_cmd: build the driver and warm the dependency cache (offline)."""
import sys
from .build import ensure_driver, build_facts, InfraError


def main():
    try:
        ensure_driver(verbose=True)
        for cfg in ("default", "minimal"):
            res = build_facts(cfg)
            print("facts", cfg, "ok")
            import os
            if isinstance(res, tuple):
                try:
                    os.unlink(res[0])
                except OSError:
                    pass
    except InfraError as e:
        print("setup failed:", e)
        return 1
    return 0


if __name__ == "__main__":
    sys.exit(main())
