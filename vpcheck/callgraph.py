"""A2: call graph over local bodies.

Edge kinds:
  direct   resolved call to a local body
  dyn      call on a type parameter bound by a local trait -> every local impl (and the default body)
  closure  closure aggregate constructed in F (assumed callable from F)
  fnitem   local fn item passed as a value
  generic  external generic callee instantiated with a local type T: may call T's impls of external
           traits (Hash, PartialEq, Display, Clone, ...). Conservative.
"""
from .facts import Ty


# external traits whose impls for a local type T may be invoked by external generic code instantiated with T
GENERIC_TRAITS = ("hash::Hash", "cmp::PartialEq", "cmp::Eq", "cmp::PartialOrd", "cmp::Ord", "clone::Clone", "ops::Drop",
                  "default::Default", "fmt::Display", "fmt::Debug", "convert::AsRef", "convert::AsMut", "borrow::Borrow",
                  "ops::Deref", "ops::DerefMut", "iter::Iterator", "iter::IntoIterator", "iter::Extend", "iter::FromIterator",
                  "io::Read", "io::Write", "io::Seek", "ops::AddAssign", "ops::Add", "ops::Sub", "ops::SubAssign",
                  "convert::From", "convert::Into", "convert::TryFrom", "ops::Index", "ops::IndexMut", "marker::Copy",
                  "net::ToSocketAddrs", "os::fd::AsRawFd", "error::Error", "fmt::LowerHex", "fmt::UpperHex")
# deliberately excluded (never called by containers / formatting): str::FromStr, serde::Serialize/Deserialize, structopt


class CallGraph:
    def __init__(self, prog):
        self.prog = prog
        self.edges = {}     # did -> list of (kind, callee did, block index)
        self.callers = {}   # did -> list of (caller did, block index, kind)
        self.ext_calls = {}  # did -> list of (block index, callee path)
        # local ADT path -> list of method dids of impls of *external* traits
        self.ext_trait_impls = {}
        local_traits = set(prog.traits.keys())
        for im in prog.impls:
            tr = im.get("trait")
            if tr is None or tr in local_traits:
                continue
            if not any(tr == g or tr.endswith("::" + g) for g in GENERIC_TRAITS):
                continue
            st = prog.ty(im["self_ty"]).deref()
            if st.k != "adt":
                continue
            for m in im["methods"]:
                if m["did"] in prog.by_did:
                    self.ext_trait_impls.setdefault(st.d["path"], []).append((tr, m["did"]))
        for b in prog.bodies:
            self._scan(b)

    def _add(self, caller, kind, callee_did, bb):
        self.edges.setdefault(caller.did, []).append((kind, callee_did, bb))
        self.callers.setdefault(callee_did, []).append((caller.did, bb, kind))

    def _local_adts_in(self, ty, depth=0, out=None):
        if out is None:
            out = set()
        if depth > 6:
            return out
        d = ty.d
        k = d["k"]
        if k == "adt":
            if d["path"] in self.prog.adts:
                out.add(d["path"])
            for a in d.get("args", []):
                if isinstance(a, int):
                    self._local_adts_in(Ty(self.prog, a), depth + 1, out)
        elif k in ("ref", "ptr"):
            self._local_adts_in(Ty(self.prog, d["to"]), depth + 1, out)
        elif k in ("array", "slice"):
            self._local_adts_in(Ty(self.prog, d["elem"]), depth + 1, out)
        elif k == "tuple":
            for a in d["elems"]:
                self._local_adts_in(Ty(self.prog, a), depth + 1, out)
        return out

    def resolve(self, caller, term):
        """Resolve a call terminator to a list of (kind, local body did); [] if external/unknown."""
        c = term.get("callee")
        if not c:
            return []
        prog = self.prog
        if c.get("resolved_local") and c.get("resolved_did") in prog.by_did:
            return [("direct", c["resolved_did"])]
        if c.get("resolved_did") is None and c.get("local"):
            # unresolved: a method of a local trait called on a type parameter
            out = []
            for d in prog.trait_impls.get(c["did"], []):
                if d in prog.by_did:
                    out.append(("dyn", d))
            if c["did"] in prog.by_did:
                out.append(("dyn", c["did"]))
            return out
        if c.get("local") and c["did"] in prog.by_did:
            return [("direct", c["did"])]
        return []

    def _scan(self, body):
        prog = self.prog
        for bi, blk in enumerate(body.blocks):
            if blk.get("cleanup"):
                continue
            for s in blk["stmts"]:
                if s["k"] != "assign":
                    continue
                rv = s["rv"]
                if rv["k"] == "aggregate" and rv.get("agg") == "closure":
                    if rv["closure_did"] in prog.by_did:
                        self._add(body, "closure", rv["closure_did"], bi)
                # fn items used as values
                for op in _rv_operands(rv):
                    if op["k"] == "const" and "fn_did" in op and op["fn_did"] in prog.by_did:
                        self._add(body, "fnitem", op["fn_did"], bi)
            t = blk["term"]
            if t["k"] != "call":
                continue
            res = self.resolve(body, t)
            for kind, d in res:
                self._add(body, kind, d, bi)
            for a in t["args"]:
                if a["k"] == "const" and "fn_did" in a and a["fn_did"] in prog.by_did:
                    self._add(body, "fnitem", a["fn_did"], bi)
            c = t.get("callee")
            if c and not res:
                self.ext_calls.setdefault(body.did, []).append((bi, c.get("resolved") or c["path"]))
                # generic edges
                adts = set()
                for ta in c.get("targs", []):
                    self._local_adts_in(Ty(prog, ta), 0, adts)
                for a in adts:
                    for (tr, d) in self.ext_trait_impls.get(a, []):
                        self._add(body, "generic", d, bi)
                # local trait methods reachable through external generic code (e.g. Read impls)
                # are not present in this crate apart from the above.

    def callees(self, did, kinds=None):
        for (k, d, bb) in self.edges.get(did, []):
            if kinds is None or k in kinds:
                yield k, d, bb

    def closure(self, roots, kinds=None, stop=()):
        """Set of body dids reachable from roots (dids)."""
        seen = set()
        stack = list(roots)
        stop = set(stop)
        while stack:
            d = stack.pop()
            if d in seen or d in stop:
                continue
            seen.add(d)
            for k, c, bb in self.callees(d, kinds):
                if c not in seen:
                    stack.append(c)
        return seen

    def path(self, src, dst, kinds=None):
        """Shortest call path src -> dst as a list of dids, or None."""
        prev = {src: None}
        q = [src]
        while q:
            x = q.pop(0)
            if x == dst:
                out = []
                while x is not None:
                    out.append(x)
                    x = prev[x]
                return list(reversed(out))
            for k, c, bb in self.callees(x, kinds):
                if c not in prev:
                    prev[c] = x
                    q.append(c)
        return None

    def call_sites(self, pred):
        """All (body, block index, term) whose callee satisfies pred(callee dict, term)."""
        out = []
        for b in self.prog.bodies:
            for bi, t in b.calls():
                c = t.get("callee")
                if c and pred(c, t):
                    out.append((b, bi, t))
        return out


def _rv_operands(rv):
    k = rv["k"]
    if k in ("use", "cast", "repeat"):
        return [rv["op"]]
    if k == "binop":
        return [rv["a"], rv["b"]]
    if k == "unop":
        return [rv["a"]]
    if k == "aggregate":
        return rv["ops"]
    return []


def callee_name(term):
    c = term.get("callee")
    if not c:
        return None
    return c.get("resolved") or c["path"]


def callee_is(term, *suffixes):
    """True if the call's callee path (declared or resolved) equals/ends with one of the suffixes."""
    c = term.get("callee")
    if not c:
        return False
    for p in (c.get("path"), c.get("resolved")):
        if not p:
            continue
        p2 = strip_generics(p)
        for s in suffixes:
            if p2 == s or p2.endswith("::" + s):
                return True
    return False


def strip_generics(p):
    """Remove <...> groups that follow '::' (generic args) but keep leading '<T as Trait>'."""
    out = []
    depth = 0
    i = 0
    n = len(p)
    while i < n:
        ch = p[i]
        if ch == "<" and i >= 2 and p[i - 2:i] == "::" and not p.startswith("<impl ", i):
            # generic args group: skip to matching '>'
            depth = 1
            i += 1
            while i < n and depth:
                if p[i] == "<":
                    depth += 1
                elif p[i] == ">":
                    depth -= 1
                i += 1
            # remove trailing '::' before group
            if out[-2:] == [":", ":"]:
                out = out[:-2]
            continue
        out.append(ch)
        i += 1
    return "".join(out)
