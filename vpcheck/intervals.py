"""A9: forward interval analysis with branch refinement over MIR integer locals and slice lengths.

Abstract state: dict var -> (lo, hi), var one of
   ('l', local)            integer / bool local
   ('l', local, i)         field i of a tuple/struct local (overflow pairs, Range aggregates, checked_* results)
   ('len', key)            length of the slice/array/str denoted by key (immutable lengths only)
   ('some', local)         1 if the Option/Result local is known Some/Ok, 0 if known None/Err
   ('pay', local)          interval of the integer payload of an Option local (iterator items, checked_*)
   ('it', local)           interval of the items a Range-derived iterator local can still yield
   ('empty', local) -> key bool local holding is_empty(key)      (stored as alias, see aliases)
Missing var = top (type range).  Nothing is ever concrete; no solver is involved.
"""
from .facts import op_place, op_local, op_const, Ty
from .callgraph import callee_is, strip_generics
from .mirutil import root_place, deep_root, defuse
from .cfg import term_succs

INF = float("inf")
FIELD_INVARIANTS = {}
_IN_PROGRESS = set()
# assumption (listed in evidence): the clock returns seconds since boot/epoch, far below 2^62
NOW_RANGE = (0, 1 << 62)
MUT_SEQ = ("smallvec::SmallVec", "vec::Vec", "string::String", "collections::VecDeque", "util::MsgBuffer")
# repo-specific model, verified structurally by msgbuffer_model_ok(): for a MsgBuffer b, ('len', key(b)) is the
# length of b.message() == b.message_mut() == b.len(); b.buffer() (start..) is NOT that slice.
USIZE_MAX = (1 << 64) - 1
LEN_MAX = (1 << 63) - 1   # isize::MAX: no allocation / slice is longer


def ty_range(ty):
    r = ty.int_range()
    return r


def join(a, b):
    if a is None or b is None:
        return None
    return (min(a[0], b[0]), max(a[1], b[1]))


def meet(a, b):
    if a is None:
        return b
    if b is None:
        return a
    lo, hi = max(a[0], b[0]), min(a[1], b[1])
    if lo > hi:
        return "bottom"
    return (lo, hi)


class State:
    __slots__ = ("v", "alias", "dead", "on_escape", "var")

    def __init__(self):
        self.v = {}
        self.var = {}     # enum local -> name of the variant it is known to hold
        self.alias = {}   # local -> var it mirrors (e.g. local holding len(key))
        self.dead = False
        self.on_escape = None

    def copy(self):
        s = State()
        s.v = dict(self.v)
        s.alias = dict(self.alias)
        s.var = dict(self.var)
        s.dead = self.dead
        s.on_escape = self.on_escape
        return s

    def get(self, var):
        return self.v.get(var)

    def set(self, var, itv):
        if itv is None:
            self.v.pop(var, None)
        else:
            self.v[var] = itv

    def refine(self, var, itv):
        cur = self.v.get(var)
        m = meet(cur, itv)
        if m == "bottom":
            self.dead = True
            return
        if m is not None:
            self.v[var] = m

    def kill_local(self, l):
        for k in [k for k in self.v if (k[0] in ("l", "some", "pay", "it", "f", "lp") and k[1] == l) or (k[0] in ("len", "mbstart") and k[1][0] == l)]:
            if k[0] == "f" and self.on_escape is not None:
                self.on_escape(k, self.v[k])
            del self.v[k]
        self.var.pop(l, None)
        self.alias.pop(l, None)
        for k in [k for k, a in self.alias.items() if (a[0] == "l" and a[1] == l) or (a[0] in ("len", "empty", "issome", "isnone", "below", "below_opt") and a[1][0] == l)]:
            del self.alias[k]

    def join_with(self, other, widen=False, widen_to=None):
        """self := self join other. Returns True if changed."""
        if other.dead:
            return False
        if self.dead:
            self.v = dict(other.v)
            self.alias = dict(other.alias)
            self.var = dict(other.var)
            self.dead = False
            self.on_escape = other.on_escape
            return True
        changed = False
        # a component below a variant (`(l as Ok).0...`) is a conditional fact: it survives a join with a state in
        # which l is known to hold a different variant (the Err written by `?` in a spliced helper)
        for k, vv in other.v.items():
            if k[0] == "lp" and k not in self.v and k[2] and k[2][0].startswith("@"):
                sv = self.var.get(k[1])
                if sv is not None and sv != k[2][0][1:]:
                    self.v[k] = vv
                    changed = True
        keep = set()
        for k in self.v:
            if k[0] == "lp" and k not in other.v and k[2] and k[2][0].startswith("@"):
                ov = other.var.get(k[1])
                if ov is not None and ov != k[2][0][1:]:
                    keep.add(k)
        for l in list(self.var.keys()):
            if other.var.get(l) != self.var[l]:
                del self.var[l]
                changed = True
        # a field var tracked on one side only: the other side still holds the (assumed) invariant
        for k, vv in other.v.items():
            if k[0] == "f" and k not in self.v:
                inv = invariant_of(k)
                if inv is not None:
                    self.v[k] = inv
                    changed = True
        for k in list(self.v.keys()):
            if k in keep:
                continue
            if k not in other.v:
                inv = invariant_of(k) if k[0] == "f" else None
                if inv is not None:
                    a = self.v[k]
                    j = (min(a[0], inv[0]), max(a[1], inv[1]))
                    if j != a:
                        self.v[k] = j
                        changed = True
                    continue
                del self.v[k]
                changed = True
                continue
            a, b = self.v[k], other.v[k]
            j = (min(a[0], b[0]), max(a[1], b[1]))
            if j != a:
                if widen:
                    lo = a[0] if b[0] >= a[0] else -INF
                    hi = a[1] if b[1] <= a[1] else INF
                    j = (lo, hi)
                self.v[k] = j
                changed = True
        for k in list(self.alias.keys()):
            if other.alias.get(k) != self.alias[k]:
                del self.alias[k]
                changed = True
        return changed


def invariant_of(fvar):
    """Invariant interval registered for the last field of a tracked field var, if any."""
    adt, name = fvar[2][-1]
    for (a, f), itv in FIELD_INVARIANTS.items():
        if f == name and adt and (adt == a or adt.endswith("::" + a)):
            return itv
    return None


LEN_PRESERVING = ("ops::DerefMut::deref_mut", "ops::Deref::deref", "convert::AsRef::as_ref", "convert::AsMut::as_mut",
                  "borrow::Borrow::borrow", "borrow::BorrowMut::borrow_mut", "as_mut_slice", "as_slice", "as_bytes", "as_str",
                  "util::MsgBuffer::message", "util::MsgBuffer::message_mut")


def len_root(body, place, depth=0):
    """Like deep_root, but only through calls that hand out the *whole* sequence (same length): never through
    sub-slicing (Index, split_at, MsgBuffer::buffer)."""
    r = root_place(body, place)
    if depth > 10:
        return r
    l = r["l"]
    if 1 <= l <= body.arg_count:
        return r
    d = defuse(body).single_def(l)
    if d is not None and d[0] == "call" and d[2]["args"] and callee_is(d[2], *LEN_PRESERVING):
        # Digest::as_ref and similar conversions of non-sequence types are handled by static_len
        p = op_place(d[2]["args"][0])
        if p is not None:
            inner = len_root(body, p, depth + 1)
            if inner is not None:
                return inner
    return r


def key_of(body, place):
    """Canonical key of the sequence a place denotes: (root local, tuple of field names/downcasts)."""
    r = len_root(body, place)
    if r is None:
        return None
    path = []
    for e in r.get("p", []):
        if e["k"] == "deref":
            continue
        if e["k"] == "field":
            path.append("." + str(e.get("n", e["i"])))
        elif e["k"] == "downcast":
            path.append("@" + str(e.get("v", e["i"])))
        else:
            return None
    return (r["l"], tuple(path))


def field_var(place):
    """('f', local, path) for places of the form local(.field | deref)* with at least one field, else None."""
    path = []
    for e in place.get("p", []):
        if e["k"] == "deref":
            continue
        if e["k"] == "field":
            path.append((e.get("adt"), str(e.get("n", e["i"]))))
        else:
            return None
    if not path:
        return None
    return ("f", place["l"], tuple(path))


def lp_path(projs):
    """Path of a projection list made of fields and downcasts only (no deref / index), else None."""
    out = []
    for e in projs:
        if e["k"] == "field":
            out.append(str(e["i"]))
        elif e["k"] == "downcast":
            out.append("@" + str(e.get("v", e.get("i"))))
        else:
            return None
    return tuple(out)


class Intervals:
    def __init__(self, body, field_inv=None, param_inv=None, param_len=None):
        self.body = body
        self.prog = body.prog
        self.cfg = body.cfg
        self.field_inv = field_inv or {}   # (adt suffix, field) -> (lo, hi)
        self.param_inv = param_inv or {}
        self.block_in = {}
        self.results = {}      # block -> state before terminator
        self.loop_heads = set(self.cfg.loops().keys())
        self.param_len = {}    # key -> interval of the length of slice-typed parameters (from all call sites)
        if param_len is not None:
            self.param_len = dict(param_len)
        else:
            self._infer_param_lens()
        self._run()

    def _infer_param_lens(self):
        body = self.body
        prog = self.prog
        if body.kind == "closure" or body.promoted_ix is not None:
            return
        sl = [l for l in range(1, body.arg_count + 1) if body.local_ty(l).deref().k in ("slice", "str") and body.local_ty(l).k == "ref"]
        if not sl:
            return
        callers = prog.cg.callers.get(body.did, [])
        if not callers or any(kind != "direct" for (_c, _bb, kind) in callers):
            return
        if body.did in _IN_PROGRESS or len(_IN_PROGRESS) > 4:
            return
        _IN_PROGRESS.add(body.did)
        try:
            for l in sl:
                acc = None
                for (cdid, bb, kind) in callers:
                    cb = prog.by_did[cdid]
                    an = analyse(cb)
                    st = an.state_at(bb)
                    if st is None:
                        continue  # call site unreachable under the analysis
                    t = cb.blocks[bb]["term"]
                    if l - 1 >= len(t["args"]):
                        acc = (0, LEN_MAX)
                        break
                    v = an.len_itv(st, t["args"][l - 1])
                    acc = v if acc is None else join(acc, v)
                if acc is not None and acc != (0, LEN_MAX):
                    self.param_len[(l, ())] = acc
        finally:
            _IN_PROGRESS.discard(body.did)

    # ------------------------------------------------------------ evaluation
    def place_itv(self, st, place):
        body = self.body
        ty = body.place_ty(place)
        tr = ty_range(ty)
        proj = place.get("p", [])
        if not proj:
            v = st.get(("l", place["l"]))
            return meet(v, tr) if v is not None else tr
        # tuple / struct field of a local
        if len(proj) == 1 and proj[0]["k"] == "field":
            v = st.get(("l", place["l"], proj[0]["i"]))
            if v is not None:
                m = meet(v, tr)
                return tr if m == "bottom" else m
        # payload of Some
        if len(proj) == 2 and proj[0]["k"] == "downcast" and proj[1]["k"] == "field" and proj[1]["i"] == 0:
            v = st.get(("pay", place["l"]))
            if v is not None:
                m = meet(v, tr)
                return tr if m == "bottom" else m
        # component of a structured local value (tuple in Ok(..) in a `?` result, ...)
        lpp = lp_path(proj)
        if lpp is not None:
            v = st.get(("lp", place["l"], lpp))
            if v is not None:
                m = meet(v, tr)
                return tr if m == "bottom" else m
        # tracked field of a (reference) local
        fv = field_var(place)
        if fv is not None and any(e["k"] == "deref" for e in proj):
            v = st.get(fv)
            if v is not None:
                m = meet(v, tr)
                return tr if m == "bottom" else m
        # field invariant
        for e in reversed(proj):
            if e["k"] == "field":
                for (adt, f), itv in self.field_inv.items():
                    if e.get("n") == f and e.get("adt") and (e["adt"] == adt or e["adt"].endswith("::" + adt)):
                        m = meet(itv, tr)
                        return tr if m == "bottom" else m
                break
        return tr

    def op_itv(self, st, op):
        if op["k"] == "const":
            c = op_const(op)
            if c is not None:
                return (c, c)
            ty = self.prog.ty(op["ty"])
            return ty_range(ty)
        return self.place_itv(st, op["place"])

    def len_itv(self, st, op_or_place):
        """Interval of the length of the sequence referenced by an operand/place."""
        body = self.body
        if op_or_place.get("k") == "const":
            op = op_or_place
            ty = self.prog.ty(op["ty"]).deref()
            if ty.k == "array" and ty.d.get("len") is not None:
                return (ty.d["len"], ty.d["len"])
            if "slice_len" in op:
                return (op["slice_len"], op["slice_len"])
            if "promoted" in op and op["promoted"] < len(body.promoted):
                t0 = body.promoted[op["promoted"]].local_ty(0).deref()
                if t0.k == "array" and t0.d.get("len") is not None:
                    return (t0.d["len"], t0.d["len"])
            return (0, LEN_MAX)
        place = op_or_place["place"] if op_or_place.get("k") in ("copy", "move") else op_or_place
        ty = body.place_ty(place).deref()
        if ty.k == "array" and ty.d.get("len") is not None:
            return (ty.d["len"], ty.d["len"])
        r = root_place(body, place)
        rty = body.place_ty(r).deref() if ("ty" in r or not r.get("p")) else None
        if rty is not None and rty.k == "array" and rty.d.get("len") is not None:
            return (rty.d["len"], rty.d["len"])
        # constants reached through temporaries
        d = defuse(body).single_def(r["l"]) if not [e for e in r.get("p", []) if e["k"] != "deref"] else None
        if d and d[0] == "stmt":
            rv = d[3]["rv"]
            if rv["k"] == "use" and rv["op"]["k"] == "const":
                return self.len_itv(st, rv["op"])
            if rv["k"] == "cast" and "Unsize" in rv["cast"]:
                return self.len_itv(st, rv["op"])
        if self._through_buffer(place):
            return (0, LEN_MAX)
        k = key_of(body, place)
        if k is not None:
            v = st.get(("len", k))
            if v is not None:
                return v
            if k in self.param_len:
                return self.param_len[k]
        # digest outputs, promoted arrays, constant sub-ranges (shared with the length-mismatch rule)
        from .lengths import static_len
        try:
            n = static_len(body, {"k": "copy", "place": place})
        except Exception:
            n = None
        if n is not None:
            return (n, n)
            # deep root may be an array
            dr = deep_root(body, place)
            if dr is not None:
                dty = body.place_ty(dr).deref() if ("ty" in dr or not dr.get("p")) else None
                if dty is not None and dty.k == "array" and dty.d.get("len") is not None and key_of(body, dr) == k and self._is_whole(place):
                    return (dty.d["len"], dty.d["len"])
        return (0, LEN_MAX)

    def _through_buffer(self, place):
        """The place is (derived from) the result of MsgBuffer::buffer(), whose length is not the message length."""
        body = self.body
        cur = place
        for _ in range(10):
            r = root_place(body, cur)
            if 1 <= r["l"] <= body.arg_count:
                return False
            d = defuse(body).single_def(r["l"])
            if d is None or d[0] != "call" or not d[2]["args"]:
                return False
            if callee_is(d[2], "util::MsgBuffer::buffer"):
                return True
            p = op_place(d[2]["args"][0])
            if p is None:
                return False
            cur = p
        return False

    def _is_whole(self, place):
        """True if tracing `place` to its deep root passes no sub-slicing call (index)."""
        body = self.body
        cur = place
        for _ in range(12):
            r = root_place(body, cur)
            if 1 <= r["l"] <= body.arg_count:
                return True
            d = defuse(body).single_def(r["l"])
            if d is None or d[0] != "call":
                return True
            if callee_is(d[2], "ops::Index::index", "ops::IndexMut::index_mut", "split_at", "split_at_mut"):
                return False
            if not d[2]["args"]:
                return True
            p = op_place(d[2]["args"][0])
            if p is None:
                return True
            cur = p
        return False

    # ------------------------------------------------------------ arithmetic
    @staticmethod
    def arith(op, a, b, ty):
        tr = ty_range(ty) if ty is not None else None
        if a is None or b is None:
            return None
        al, ah = a
        bl, bh = b
        if op in ("Add", "AddUnchecked", "AddWithOverflow"):
            return (al + bl, ah + bh)
        if op in ("Sub", "SubUnchecked", "SubWithOverflow"):
            return (al - bh, ah - bl)
        if op in ("Mul", "MulUnchecked", "MulWithOverflow"):
            c = [al * bl, al * bh, ah * bl, ah * bh]
            c = [0 if x != x else x for x in c]
            return (min(c), max(c))
        if op == "Div":
            if bl > 0 and al >= 0:
                return (al // bh if bh != INF else 0, ah // bl if ah != INF else INF)
            return None
        if op == "Rem":
            if bl > 0 and al >= 0:
                return (0, min(ah, bh - 1))
            return None
        if op == "BitAnd":
            if al >= 0 and bl >= 0:
                return (0, min(ah, bh))
            if bl >= 0:
                return (0, bh)
            if al >= 0:
                return (0, ah)
            return None
        if op in ("BitOr", "BitXor"):
            if al >= 0 and bl >= 0 and ah != INF and bh != INF:
                n = max(int(ah).bit_length(), int(bh).bit_length())
                return (0, (1 << n) - 1)
            return None
        if op in ("Shr", "ShrUnchecked"):
            if al >= 0 and bl >= 0 and bl == bh and ah != INF:
                return (int(al) >> int(bl), int(ah) >> int(bl))
            if al >= 0:
                return (0, ah)
            return None
        if op in ("Shl", "ShlUnchecked"):
            if al >= 0 and bl >= 0 and bl == bh and ah != INF and bl < 128:
                return (int(al) << int(bl), int(ah) << int(bl))
            return None
        return None

    @staticmethod
    def cmp(op, a, b):
        """Interval of the boolean result."""
        if a is None or b is None:
            return (0, 1)
        al, ah = a
        bl, bh = b
        if op == "Lt":
            return (1, 1) if ah < bl else (0, 0) if al >= bh else (0, 1)
        if op == "Le":
            return (1, 1) if ah <= bl else (0, 0) if al > bh else (0, 1)
        if op == "Gt":
            return (1, 1) if al > bh else (0, 0) if ah <= bl else (0, 1)
        if op == "Ge":
            return (1, 1) if al >= bh else (0, 0) if ah < bl else (0, 1)
        if op == "Eq":
            return (1, 1) if al == ah == bl == bh else (0, 0) if ah < bl or al > bh else (0, 1)
        if op == "Ne":
            return (0, 0) if al == ah == bl == bh else (1, 1) if ah < bl or al > bh else (0, 1)
        return (0, 1)

    # ------------------------------------------------------------ transfer
    def var_of_op(self, st, op):
        """The state variable an operand reads (for refinement), following aliases."""
        p = op_place(op)
        if p is None:
            return None
        proj = p.get("p", [])
        if not proj:
            return ("l", p["l"])
        if len(proj) == 1 and proj[0]["k"] == "field":
            return ("l", p["l"], proj[0]["i"])
        fv = field_var(p)
        if fv is not None and any(e["k"] == "deref" for e in proj):
            return fv
        return None

    def _subtree_of_place(self, st, sp):
        """{relative path: interval} of the tracked components below a place (fields / downcasts of a local)."""
        base = lp_path(sp.get("p", []))
        if base is None:
            return {}
        out = {}
        n = len(base)
        for kk, vv in st.v.items():
            if kk[0] == "lp" and kk[1] == sp["l"] and kk[2][:n] == base:
                out[kk[2][n:]] = vv
        return out

    def _len_subtree_of_place(self, st, sp):
        """{relative path: length interval} of tracked sequence lengths at or below a place (fields only)."""
        base = []
        for e in sp.get("p", []):
            if e["k"] == "field":
                base.append("." + str(e.get("n", e["i"])))
            elif e["k"] == "downcast":
                base.append("@" + str(e.get("v", e["i"])))
            else:
                return {}
        base = tuple(base)
        out = {}
        n = len(base)
        for kk, vv in st.v.items():
            if kk[0] == "len" and kk[1][0] == sp["l"] and kk[1][1][:n] == base:
                out[kk[1][1][n:]] = vv
        return out

    def _len_subtree_of_rv(self, st, rv):
        k = rv["k"]
        if k == "use":
            sp = op_place(rv["op"])
            return self._len_subtree_of_place(st, sp) if sp is not None else {}
        if k == "aggregate" and rv.get("agg") in ("tuple", "adt") and not rv.get("is_enum"):
            out = {}
            names = rv.get("fields") if rv.get("agg") == "adt" else None
            for i, o in enumerate(rv["ops"]):
                sp = op_place(o)
                if sp is None:
                    continue
                pre = ("." + (names[i] if names and i < len(names) else str(i)),)
                for q, vv in self._len_subtree_of_place(st, sp).items():
                    out[pre + q] = vv
            return out
        return {}

    def _subtree_of_rv(self, st, rv):
        k = rv["k"]
        if k == "use":
            sp = op_place(rv["op"])
            return self._subtree_of_place(st, sp) if sp is not None else {}
        if k == "aggregate" and rv.get("agg") in ("tuple", "adt"):
            out = {}
            for i, o in enumerate(rv["ops"]):
                if rv.get("agg") == "adt" and rv.get("is_enum"):
                    pre = ("@" + str(rv.get("variant")), str(i))
                else:
                    pre = (str(i),)
                sp = op_place(o)
                oty = self.body.place_ty(sp) if sp is not None else None
                if (oty is not None and oty.int_range() is not None) or o.get("k") == "const":
                    iv = self.op_itv(st, o)
                    if iv is not None and isinstance(iv, tuple):
                        out[pre] = iv
                if sp is not None:
                    for q, vv in self._subtree_of_place(st, sp).items():
                        if q:
                            out[pre + q] = vv
            return out
        return {}

    def assign(self, st, stmt):
        body = self.body
        place = stmt["place"]
        rv = stmt["rv"]
        proj = place.get("p", [])
        if rv["k"] in ("ref", "rawptr") and rv.get("mut"):
            # the components of a local whose address is taken mutably can change behind our back
            for kk in [k for k in st.v if k[0] == "lp" and k[1] == rv["place"]["l"]]:
                del st.v[kk]
        if proj:
            lpp = lp_path(proj)
            if lpp is not None:
                sub = self._subtree_of_rv(st, rv)
                for kk in [k for k in st.v if k[0] == "lp" and k[1] == place["l"] and k[2][:len(lpp)] == lpp]:
                    del st.v[kk]
                if body.place_ty(place).int_range() is not None:
                    iv = self._rv_itv(st, rv, body.place_ty(place))
                    if iv is not None:
                        st.set(("lp", place["l"], lpp), iv)
                for q, vv in sub.items():
                    if q:
                        st.set(("lp", place["l"], lpp + q), vv)
            else:
                # store through a deref / index: forget the components of that local
                for kk in [k for k in st.v if k[0] == "lp" and k[1] == place["l"]]:
                    del st.v[kk]
            # store through a projection: only tuple-field of local is tracked
            if len(proj) == 1 and proj[0]["k"] == "field" and body.place_ty(place).int_range() is not None:
                st.set(("l", place["l"], proj[0]["i"]), self._rv_itv(st, rv, body.place_ty(place)))
            fv = field_var(place)
            if fv is not None and any(e["k"] == "deref" for e in proj) and body.place_ty(place).int_range() is not None:
                st.set(fv, self._rv_itv(st, rv, body.place_ty(place)))
            return
        l = place["l"]
        dty = body.local_ty(l)
        # compute before killing (rv may read l)
        itv = None
        alias = None
        fields = None
        pay = None
        some = None
        itr = None
        lenv = None
        k = rv["k"]
        if dty.int_range() is not None:
            itv = self._rv_itv(st, rv, dty)
            if k == "use":
                sl = op_local(rv["op"])
                if sl is not None and sl in st.alias:
                    alias = st.alias[sl]
            if k in ("len",):
                pass
        if k == "binop" and rv["op"].endswith("WithOverflow"):
            a = self.op_itv(st, rv["a"])
            b = self.op_itv(st, rv["b"])
            ety = None
            if dty.k == "tuple":
                ety = self.prog.ty(dty.d["elems"][0])
            val = self.arith(rv["op"], a, b, ety)
            tr = ty_range(ety) if ety is not None else None
            if val is not None and tr is not None:
                fits = val[0] >= tr[0] and val[1] <= tr[1]
                v0 = meet(val, tr)
                fields = {0: (tr if v0 == "bottom" else v0), 1: (0, 0) if fits else (0, 1)}
            else:
                fields = {0: tr, 1: (0, 1)}
        elif k == "aggregate":
            if rv.get("agg") in ("tuple",) or (rv.get("agg") == "adt" and rv.get("adt", "").startswith("std::ops::Range")):
                fields = {}
                for i, o in enumerate(rv["ops"]):
                    fields[i] = self.op_itv(st, o)
            if rv.get("agg") == "adt" and rv.get("adt", "").endswith("option::Option"):
                some = (1, 1) if rv["variant"] == "Some" else (0, 0)
                if rv["variant"] == "Some" and rv["ops"]:
                    pay = self.op_itv(st, rv["ops"][0])
        elif k == "use":
            sp = op_place(rv["op"])
            if sp is not None and not sp.get("p"):
                sl = sp["l"]
                # propagate structured info of the source local
                fields = {}
                for kk, vv in st.v.items():
                    if kk[0] == "l" and len(kk) == 3 and kk[1] == sl:
                        fields[kk[2]] = vv
                pay = st.get(("pay", sl))
                some = st.get(("some", sl))
                itr = st.get(("it", sl))
                lk = st.get(("len", (sl, ())))
                if lk is not None:
                    lenv = lk
        sub_lp = self._subtree_of_rv(st, rv)
        sub_len = self._len_subtree_of_rv(st, rv)
        newvar = None
        if k == "aggregate" and rv.get("agg") == "adt" and rv.get("is_enum"):
            newvar = str(rv.get("variant"))
        elif k == "use":
            spv = op_place(rv["op"])
            if spv is not None and not spv.get("p"):
                newvar = st.var.get(spv["l"])
        st.kill_local(l)
        if newvar is not None:
            st.var[l] = newvar
        for q, vv in sub_lp.items():
            if q:
                st.set(("lp", l, q), vv)
        for q, vv in sub_len.items():
            st.set(("len", (l, q)), vv)
        if itv is not None:
            st.set(("l", l), itv)
        if alias is not None:
            st.alias[l] = alias
        if k == "aggregate" and rv.get("agg") == "adt" and rv.get("adt", "").endswith("ops::Range") and len(rv["ops"]) == 2:
            el = op_local(rv["ops"][1])
            ea = st.alias.get(el) if el is not None else None
            s0 = self.op_itv(st, rv["ops"][0])
            if ea is not None and ea[0] == "len" and s0 is not None and s0[0] >= 0:
                st.alias[l] = ("below", ea[1])   # every item of this range is < len(key)
        if k == "use":
            sl2 = op_local(rv["op"])
            if sl2 is not None and st.alias.get(sl2, (None,))[0] == "below":
                st.alias[l] = st.alias[sl2]
            sp2 = op_place(rv["op"])
            # payload of Some(item) read from an option produced by next() on such a range
            if sp2 is not None and len(sp2.get("p", [])) == 2 and sp2["p"][0]["k"] == "downcast" and sp2["p"][1]["k"] == "field":
                oa = st.alias.get(sp2["l"])
                if oa is not None and oa[0] == "below_opt":
                    st.alias[l] = ("below", oa[1])
        if fields:
            for i, v in fields.items():
                if v is not None:
                    st.set(("l", l, i), v)
        if pay is not None:
            st.set(("pay", l), pay)
        if some is not None:
            st.set(("some", l), some)
        if itr is not None:
            st.set(("it", l), itr)
        if lenv is not None:
            st.set(("len", (l, ())), lenv)
        # alias: local mirrors a length
        if k in ("len", "unop") and rv.get("op") == "PtrMetadata":
            kk = key_of(body, op_place(rv["a"])) if op_place(rv["a"]) else None
            if kk is not None:
                st.alias[l] = ("len", kk)

    def _rv_itv(self, st, rv, dty):
        k = rv["k"]
        tr = ty_range(dty)
        res = None
        if k == "use":
            res = self.op_itv(st, rv["op"])
        elif k == "cast":
            src = self.op_itv(st, rv["op"])
            if rv["cast"].startswith("IntToInt") and src is not None and tr is not None:
                if src[0] >= tr[0] and src[1] <= tr[1]:
                    res = src
                else:
                    res = tr
            else:
                res = tr
        elif k == "binop":
            op = rv["op"]
            a = self.op_itv(st, rv["a"])
            b = self.op_itv(st, rv["b"])
            if op in ("Lt", "Le", "Gt", "Ge", "Eq", "Ne"):
                res = self.cmp(op, a, b)
                if op == "Lt" and res != (1, 1):
                    la, lb = op_local(rv["a"]), op_local(rv["b"])
                    aa = st.alias.get(la) if la is not None else None
                    ab = st.alias.get(lb) if lb is not None else None
                    if aa is not None and ab is not None and aa[0] == "below" and ab[0] == "len" and aa[1] == ab[1]:
                        res = (1, 1)
            elif op.endswith("WithOverflow"):
                res = None
            else:
                res = self.arith(op, a, b, dty)
                if res is not None and tr is not None and not (res[0] >= tr[0] and res[1] <= tr[1]):
                    # wrapping semantics of unchecked MIR ops in release / after a passed overflow assert
                    res = tr
        elif k == "unop":
            a = self.op_itv(st, rv["a"])
            if rv["op"] == "Not" and dty.k == "bool" and a is not None:
                res = (1 - a[1], 1 - a[0])
            elif rv["op"] == "PtrMetadata":
                res = self.len_itv(st, rv["a"])
            elif rv["op"] == "Neg" and a is not None:
                res = (-a[1], -a[0])
        elif k == "len":
            res = self.len_itv(st, rv["place"])
        if res is None:
            return tr
        if tr is not None:
            m = meet(res, tr)
            return tr if m == "bottom" else m
        return res

    def call(self, st, bi, t):
        """Transfer of a call terminator (effect visible on the normal-return edge)."""
        body = self.body
        dest = t["dest"]
        if dest.get("p"):
            return
        d = dest["l"]
        dty = body.local_ty(d)
        c = t.get("callee") or {}
        name = strip_generics(c.get("path", ""))
        args = t["args"]
        itv = None
        extra = {}
        alias = None
        post_len = None
        post_start = None

        def arg_itv(i):
            return self.op_itv(st, args[i])

        def ends(*sufs):
            return any(name == s or name.endswith("::" + s) for s in sufs)

        if ends("slice::<impl [T]>::len", "str::<impl str>::len", "array::<impl [T; N]>::len") or (ends("len") and args and self._seq_arg(args[0])):
            itv = self.len_itv(st, args[0])
            kk = key_of(body, op_place(args[0])) if op_place(args[0]) else None
            if kk is not None:
                alias = ("len", kk)
        elif ends("slice::<impl [T]>::is_empty", "str::<impl str>::is_empty") or (ends("is_empty") and args and self._seq_arg(args[0])):
            li = self.len_itv(st, args[0])
            itv = (1, 1) if li[1] == 0 else (0, 0) if li[0] > 0 else (0, 1)
            kk = key_of(body, op_place(args[0])) if op_place(args[0]) else None
            if kk is not None:
                alias = ("empty", kk)
        elif ends("option::Option::is_none", "option::Option::is_some", "result::Result::is_ok", "result::Result::is_err") and args:
            r = root_place(body, op_place(args[0])) if op_place(args[0]) else None
            if r is not None and not [e for e in r.get("p", []) if e["k"] != "deref"]:
                pos = name.endswith("is_some") or name.endswith("is_ok")
                sm = st.get(("some", r["l"]))
                if sm is not None and sm[0] == sm[1]:
                    itv = (sm[0], sm[0]) if pos else (1 - sm[0], 1 - sm[0])
                alias = ("issome" if pos else "isnone", (r["l"], ()))
        elif ends("str::<impl str>::find", "str::<impl str>::rfind") and args:
            li = self.len_itv(st, args[0])
            if li[1] >= 1:
                extra[("pay", d)] = (0, li[1] - 1)
        elif ends("clone::Clone::clone") and len(args) == 1 and dty.int_range() is not None and op_place(args[0]) is not None:
            r = root_place(body, op_place(args[0]))
            pl = dict(r)
            if not any(e["k"] == "deref" for e in pl.get("p", [])[-1:]):
                pass
            itv = self.place_itv(st, pl) if body.place_ty(pl).int_range() is not None or True else None
        elif ends("util::TimeSource::now") and not args:
            itv = NOW_RANGE
        elif ends("cmp::min", "cmp::Ord::min") and len(args) == 2:
            a, b = arg_itv(0), arg_itv(1)
            if a and b:
                itv = (min(a[0], b[0]), min(a[1], b[1]))
        elif ends("cmp::max", "cmp::Ord::max") and len(args) == 2:
            a, b = arg_itv(0), arg_itv(1)
            if a and b:
                itv = (max(a[0], b[0]), max(a[1], b[1]))
        elif ends("convert::From::from", "convert::Into::into") and len(args) == 1 and dty.int_range() is not None:
            a = arg_itv(0)
            if a is not None:
                itv = a
        elif (ends("saturating_sub") or name.endswith("saturating_sub")) and len(args) == 2:
            a, b = arg_itv(0), arg_itv(1)
            tr = ty_range(dty)
            if a and b and tr:
                itv = (max(tr[0], a[0] - b[1]), max(tr[0], a[1] - b[0]))
        elif name.endswith("saturating_add") and len(args) == 2:
            a, b = arg_itv(0), arg_itv(1)
            tr = ty_range(dty)
            if a and b and tr:
                itv = (min(tr[1], a[0] + b[0]), min(tr[1], a[1] + b[1]))
        elif name.endswith("wrapping_add") or name.endswith("wrapping_sub") or name.endswith("wrapping_mul"):
            a, b = arg_itv(0), arg_itv(1)
            tr = ty_range(dty)
            op = {"add": "Add", "sub": "Sub", "mul": "Mul"}[name.rsplit("_", 1)[1]]
            v = self.arith(op, a, b, dty)
            itv = v if (v and tr and v[0] >= tr[0] and v[1] <= tr[1]) else tr
        elif name.endswith("leading_zeros") or name.endswith("trailing_zeros") or name.endswith("count_ones"):
            aty = body.place_ty(op_place(args[0])) if op_place(args[0]) else None
            bits = aty.d.get("bits", 128) if aty is not None and aty.k == "int" else 128
            itv = (0, bits)
        elif name.endswith("checked_shl") or name.endswith("checked_shr"):
            a, b = arg_itv(0), arg_itv(1)
            aty = body.place_ty(op_place(args[0])) if op_place(args[0]) else (self.prog.ty(args[0]["ty"]) if args[0]["k"] == "const" else None)
            bits = aty.d.get("bits", 128) if aty is not None and aty.k == "int" else None
            if bits is not None and b is not None:
                if b[1] < bits:
                    extra[("some", d)] = (1, 1)
                elif b[0] >= bits:
                    extra[("some", d)] = (0, 0)
        elif name.endswith("checked_sub") or name.endswith("checked_add") or name.endswith("checked_mul"):
            a, b = arg_itv(0), arg_itv(1)
            op = {"add": "Add", "sub": "Sub", "mul": "Mul"}[name.rsplit("_", 1)[1]]
            aty = body.place_ty(op_place(args[0])) if op_place(args[0]) else None
            tr = ty_range(aty) if aty is not None else None
            v = self.arith(op, a, b, aty)
            if v and tr:
                if v[0] >= tr[0] and v[1] <= tr[1]:
                    extra[("some", d)] = (1, 1)
                m = meet(v, tr)
                if m != "bottom":
                    extra[("pay", d)] = m
        elif ends("option::Option::unwrap_or") and len(args) == 2:
            p = st.get(("pay", op_local(args[0]))) if op_local(args[0]) is not None else None
            b = arg_itv(1)
            if p is not None and b is not None:
                itv = join(p, b)
        elif ends("option::Option::unwrap", "option::Option::expect", "result::Result::unwrap", "result::Result::expect") and args:
            sl = op_local(args[0])
            p = st.get(("pay", sl)) if sl is not None else None
            if p is not None:
                itv = p
        elif ends("iter::Iterator::next", "iter::DoubleEndedIterator::next_back") and args:
            r = root_place(body, op_place(args[0])) if op_place(args[0]) else None
            if r is not None and not r.get("p"):
                it = st.get(("it", r["l"]))
                if it is not None:
                    extra[("pay", d)] = it
        elif ends("iter::IntoIterator::into_iter", "iter::Iterator::rev", "iter::Iterator::by_ref") and args:
            sl = op_local(args[0])
            if sl is not None:
                f0, f1 = st.get(("l", sl, 0)), st.get(("l", sl, 1))
                it = st.get(("it", sl))
                aty = body.local_ty(sl).deref()
                if it is not None:
                    extra[("it", d)] = it
                elif aty.k == "adt" and aty.d["path"].endswith("ops::Range") and f0 is not None and f1 is not None:
                    if f1[1] - 1 >= f0[0]:
                        extra[("it", d)] = (f0[0], f1[1] - 1)
                    else:
                        extra[("it", d)] = (f0[0], f0[0])
        elif ends("ops::Index::index", "ops::IndexMut::index_mut") and len(args) == 2:
            ln = self.index_result_len(st, t)
            if ln is not None:
                extra[("len", (d, ()))] = ln
        elif ends("slice::<impl [T]>::split_at", "slice::<impl [T]>::split_at_mut") and len(args) == 2:
            base = self.len_itv(st, args[0])
            mid = arg_itv(1)
            if mid is not None:
                extra[("len", (d, (".0",)))] = (mid[0], min(mid[1], base[1]))
                lo = max(0, base[0] - mid[1]) if mid[1] != INF else 0
                extra[("len", (d, (".1",)))] = (lo, max(0, base[1] - mid[0]))
        elif ends("convert::Into::into", "convert::From::from", "slice::<impl [T]>::to_vec", "borrow::ToOwned::to_owned", "smallvec::SmallVec::from_slice") and len(args) == 1 and self._seq_arg(args[0]) and dty.deref().k == "adt":
            extra[("len", (d, ()))] = self.len_itv(st, args[0])
        elif ends("util::MsgBuffer::new") and len(args) == 1:
            a0 = arg_itv(0)
            if a0 is not None:
                extra[("mbstart", (d, ()))] = a0
                extra[("len", (d, ()))] = (0, 0)
        elif ends("util::MsgBuffer::set_start") and len(args) == 2:
            kk = key_of(body, op_place(args[0])) if op_place(args[0]) else None
            a1 = arg_itv(1)
            if kk is not None and a1 is not None:
                post_start = (kk, a1)
        elif ends("util::MsgBuffer::set_length") and len(args) == 2:
            kk = key_of(body, op_place(args[0])) if op_place(args[0]) else None
            n = arg_itv(1)
            if kk is not None and n is not None:
                post_len = (kk, (max(0, n[0]), min(LEN_MAX, n[1])))
        elif ends("vec::Vec::truncate", "smallvec::SmallVec::truncate") and len(args) == 2:
            kk = key_of(body, op_place(args[0])) if op_place(args[0]) else None
            n = arg_itv(1)
            if kk is not None and n is not None:
                cur = self.len_itv(st, args[0])
                post_len = (kk, (min(cur[0], n[0]) if cur else 0, min(cur[1] if cur else LEN_MAX, n[1])))
        elif ends("util::MsgBuffer::clear") and len(args) == 1:
            kk = key_of(body, op_place(args[0])) if op_place(args[0]) else None
            if kk is not None:
                post_len = (kk, (0, 0))
        elif ends("convert::AsRef::as_ref", "ops::Deref::deref", "ops::DerefMut::deref_mut", "convert::AsMut::as_mut", "borrow::Borrow::borrow") and args:
            # handled through deep_root aliasing: nothing to do
            pass
        below = None
        if ends("iter::IntoIterator::into_iter", "iter::Iterator::by_ref") and args:
            sl3 = op_local(args[0])
            if sl3 is not None and st.alias.get(sl3, (None,))[0] == "below":
                below = st.alias[sl3]
        if ends("iter::Iterator::next") and args and op_place(args[0]) is not None:
            r3 = root_place(body, op_place(args[0]))
            if not r3.get("p") and st.alias.get(r3["l"], (None,))[0] == "below":
                below = ("below_opt", st.alias[r3["l"]][1])
        # length summary of local callees that return a sequence
        if itv is None and ("len", (d, ())) not in extra and c.get("local") and dty.k == "adt" and any(dty.d["path"].endswith(m) for m in MUT_SEQ[:4]):
            for kind_, cd in self.prog.cg.resolve(body, t):
                if kind_ == "direct":
                    rl = ret_len_summary(self.prog.by_did[cd])
                    if rl is not None:
                        extra[("len", (d, ()))] = rl
        carried = {}
        if callee_is(t, "Try::branch", "ops::Try>::branch") and args and op_place(args[0]) is not None:
            # Continue(v) carries the payload of Ok(v) / Some(v)
            for q, vv in self._subtree_of_place(st, op_place(args[0])).items():
                if len(q) >= 2 and q[0] in ("@Ok", "@Some") and q[1] == "0":
                    carried[("@Continue", "0") + q[2:]] = vv
        branch_var = None
        if callee_is(t, "Try::branch", "ops::Try>::branch") and args and op_place(args[0]) is not None and not op_place(args[0]).get("p"):
            av = st.var.get(op_place(args[0])["l"])
            if av in ("Ok", "Some"):
                branch_var = "Continue"
            elif av in ("Err", "None"):
                branch_var = "Break"
        st.kill_local(d)
        if branch_var is not None:
            st.var[d] = branch_var
        if callee_is(t, "FromResidual>::from_residual", "from_residual") and dty.k == "adt":
            if dty.d["path"].endswith("result::Result"):
                st.var[d] = "Err"
            elif dty.d["path"].endswith("option::Option"):
                st.var[d] = "None"
        for q, vv in carried.items():
            st.set(("lp", d, q), vv)
        if below is not None:
            alias = alias or below
        for a in args:
            p = op_place(a)
            if p is None:
                continue
            aty = body.place_ty(p)
            r = root_place(body, p)
            if aty.k == "ref" or aty.k == "ptr":
                for kk in [k for k in st.v if k[0] == "f" and k[1] == r["l"]]:
                    if st.on_escape is not None:
                        st.on_escape(kk, st.v[kk])
                    if aty.d.get("mut"):
                        del st.v[kk]
        # a &mut borrow of a tracked integer local passed to a call may change it
        for a in args:
            p = op_place(a)
            if p is None:
                continue
            aty = body.place_ty(p)
            if aty.k == "ref" and aty.d.get("mut"):
                r = root_place(body, p)
                rl = r["l"]
                inner = aty.deref()
                if inner.k == "adt" and not ends("ops::DerefMut::deref_mut", "ops::IndexMut::index_mut", "iter_mut", "as_mut_slice", "util::MsgBuffer::message_mut"):
                    dr = deep_root(body, p)
                    roots = {rl} | ({dr["l"]} if dr is not None else set())
                    for kk in [k for k in st.v if k[0] == "len" and k[1][0] in roots]:
                        del st.v[kk]
                    if not ends("util::MsgBuffer::set_length", "util::MsgBuffer::buffer", "util::MsgBuffer::set_start"):
                        for kk in [k for k in st.v if k[0] == "mbstart" and k[1][0] in roots]:
                            del st.v[kk]
                    for kk in [k for k, al in st.alias.items() if al[0] in ("len", "empty", "below", "below_opt") and al[1][0] in roots]:
                        del st.alias[kk]
                if body.local_ty(rl).int_range() is not None or [k for k in st.v if k[0] == "it" and k[1] == rl]:
                    # iterators advance but their item interval stays valid
                    for kk in [k for k in st.v if k[0] == "l" and k[1] == rl]:
                        del st.v[kk]
        if itv is not None and dty.int_range() is not None:
            tr = ty_range(dty)
            m = meet(itv, tr)
            st.set(("l", d), tr if m == "bottom" else m)
        if alias is not None:
            st.alias[d] = alias
        for k, v in extra.items():
            st.set(k, v)
        if post_len is not None:
            st.set(("len", post_len[0]), post_len[1])
        if post_start is not None:
            st.set(("mbstart", post_start[0]), post_start[1])

    def _seq_arg(self, op):
        p = op_place(op)
        if p is None:
            return op["k"] == "const" and self.prog.ty(op["ty"]).deref().k in ("array", "slice", "str")
        t = self.body.place_ty(p).deref()
        if t.k in ("array", "slice", "str"):
            return True
        return t.k == "adt" and any(t.d["path"].endswith(m) for m in MUT_SEQ)

    def range_bounds(self, st, op):
        """(kind, a, b) intervals of a Range* operand passed by value."""
        body = self.body
        p = op_place(op)
        if p is None:
            return None
        ty = body.place_ty(p)
        if ty.k != "adt":
            return None
        path = ty.d["path"]
        l = p["l"] if not p.get("p") else None
        f = lambda i: (st.get(("l", l, i)) if l is not None else None) or (0, USIZE_MAX)
        if path.endswith("ops::Range"):
            return ("range", f(0), f(1))
        if path.endswith("ops::RangeFrom"):
            return ("from", f(0), None)
        if path.endswith("ops::RangeTo"):
            return ("to", None, f(0))
        if path.endswith("ops::RangeFull"):
            return ("full", None, None)
        if path.endswith("ops::RangeToInclusive"):
            b = f(0)
            return ("to", None, (b[0] + 1, b[1] + 1))
        return None

    def _const_window(self, range_op):
        """For Range{start: x, end: x + c} (same place x, constant c >= 0) the window length c, else None."""
        body = self.body
        from .mirutil import origin
        o = origin(body, range_op)
        if o[0] != "rvalue" or o[2]["rv"]["k"] != "aggregate" or not o[2]["rv"].get("adt", "").endswith("ops::Range"):
            return None
        a_op, b_op = o[2]["rv"]["ops"]
        pa, pb = op_place(a_op), op_place(b_op)
        if pa is None or pb is None:
            return None
        ra, rb = root_place(body, pa), root_place(body, pb)
        projs = [e for e in rb.get("p", []) if e["k"] != "deref"]
        d = defuse(body).single_def(rb["l"])
        if not (len(projs) == 1 and projs[0]["k"] == "field" and projs[0]["i"] == 0 and d and d[0] == "stmt"):
            return None
        rv = d[3]["rv"]
        if rv["k"] != "binop" or rv["op"] not in ("AddWithOverflow", "Add"):
            return None
        c = op_const(rv["b"])
        px = op_place(rv["a"])
        if c is None or c < 0 or px is None:
            return None
        rx = root_place(body, px)
        if not _same_place(rx, ra):
            return None
        # x must hold the same value at both reads: the two copies are taken from one local that is not
        # re-assigned in between (same block, or single definition)
        if len(defuse(body).defs.get(ra["l"], [])) > 1:
            da = defuse(body).single_def(pa["l"])
            dx = defuse(body).single_def(px["l"])
            if not (da and dx and da[0] == "stmt" and dx[0] == "stmt" and da[1] == dx[1] and self._local_unchanged_after(da[1], min(da[2], dx[2]), ra["l"])):
                return None
        return c

    def index_result_len(self, st, t):
        rb = self.range_bounds(st, t["args"][1])
        if rb is None:
            return None
        base = self.len_itv(st, t["args"][0])
        kind, a, b = rb
        if kind == "full":
            return base
        if kind == "range":
            c = self._const_window(t["args"][1])
            if c is not None:
                return (c, c)
            return (max(0, b[0] - a[1]), max(0, b[1] - a[0]))
        if kind == "to":
            return b
        if kind == "from":
            return (max(0, base[0] - a[1]), max(0, base[1] - a[0]))
        return None

    # ------------------------------------------------------------ refinement
    def refine_cond(self, st, cond_op, truth):
        """Refine state assuming the boolean operand equals `truth`."""
        body = self.body
        l = op_local(cond_op)
        if l is None:
            v = self.var_of_op(st, cond_op)
            if v is not None:
                st.refine(v, (1, 1) if truth else (0, 0))
            return
        st.refine(("l", l), (1, 1) if truth else (0, 0))
        a = st.alias.get(l)
        if a is not None and a[0] == "empty":
            if truth:
                st.refine(("len", a[1]), (0, 0))
            else:
                st.refine(("len", a[1]), (1, LEN_MAX))
        if a is not None and a[0] in ("issome", "isnone"):
            v = 1 if (truth == (a[0] == "issome")) else 0
            st.refine(("some", a[1][0]), (v, v))
        # definition of the condition in the same block / unique def
        d = defuse(body).single_def(l)
        if d is None or d[0] != "stmt":
            return
        rv = d[3]["rv"]
        if rv["k"] == "unop" and rv["op"] == "Not":
            self.refine_cond(st, rv["a"], not truth)
            return
        if rv["k"] == "use" and op_place(rv["op"]) is not None:
            # copy of a field (e.g. overflow flag `_13.1`)
            v = self.var_of_op(st, rv["op"])
            if v is not None:
                st.refine(v, (1, 1) if truth else (0, 0))
            return
        if rv["k"] != "binop" or rv["op"] not in ("Lt", "Le", "Gt", "Ge", "Eq", "Ne"):
            return
        op = rv["op"]
        if not truth:
            op = {"Lt": "Ge", "Le": "Gt", "Gt": "Le", "Ge": "Lt", "Eq": "Ne", "Ne": "Eq"}[op]
        # operands must not have been redefined between the comparison and here: MIR temps feeding a
        # comparison are single-def; named locals may be multi-def, in which case we only refine when the
        # comparison is in the same block as the branch (checked by caller through `same_block`)
        a, b = rv["a"], rv["b"]
        ai, bi_ = self.op_itv(st, a), self.op_itv(st, b)
        if ai is None or bi_ is None:
            return
        va, vb = self.var_of_op(st, a), self.var_of_op(st, b)

        def refine_var(v, itv, depth=0):
            if v is None:
                return
            st.refine(v, itv)
            if v[0] == "l" and len(v) == 2:
                al = st.alias.get(v[1])
                if al is not None and al[0] == "len":
                    st.refine(al, itv)
                # the compared temporary is a copy (or value-preserving cast) of an SSA-like local
                if depth < 6:
                    dd = defuse(body).single_def(v[1])
                    if dd is not None and dd[0] == "stmt":
                        rv2 = dd[3]["rv"]
                        src = None
                        if rv2["k"] == "use":
                            src = self.var_of_op(st, rv2["op"])
                        elif rv2["k"] == "cast" and rv2["cast"].startswith("IntToInt"):
                            sp = op_place(rv2["op"])
                            if sp is not None:
                                sr = ty_range(body.place_ty(sp))
                                tr2 = ty_range(self.prog.ty(rv2["ty"]))
                                if sr and tr2 and sr[0] >= tr2[0] and sr[1] <= tr2[1]:
                                    src = self.var_of_op(st, rv2["op"])
                        if src is not None and src[0] == "l" and len(src) == 2 and (self._ssa_like(src[1]) or (
                                dd[1] == self._cur_block and self._local_unchanged_after(dd[1], dd[2], src[1]))):
                            refine_var(src, itv, depth + 1)
                        elif src is not None and src[0] == "f" and dd[1] == self._cur_block and self._field_unchanged_after(dd[1], dd[2], src):
                            cur = st.get(src)
                            if cur is None:
                                inv = invariant_of(src)
                                if inv is not None:
                                    st.set(src, inv)
                            st.refine(src, itv)

        if op == "Lt":
            refine_var(va, (-INF, bi_[1] - 1))
            refine_var(vb, (ai[0] + 1, INF))
        elif op == "Le":
            refine_var(va, (-INF, bi_[1]))
            refine_var(vb, (ai[0], INF))
        elif op == "Gt":
            refine_var(va, (bi_[0] + 1, INF))
            refine_var(vb, (-INF, ai[1] - 1))
        elif op == "Ge":
            refine_var(va, (bi_[0], INF))
            refine_var(vb, (-INF, ai[1]))
        elif op == "Eq":
            refine_var(va, bi_)
            refine_var(vb, ai)
        elif op == "Ne":
            if bi_[0] == bi_[1]:
                if ai[0] == bi_[0]:
                    refine_var(va, (ai[0] + 1, INF))
                elif ai[1] == bi_[0]:
                    refine_var(va, (-INF, ai[1] - 1))
            if ai[0] == ai[1]:
                if bi_[0] == ai[0]:
                    refine_var(vb, (bi_[0] + 1, INF))
                elif bi_[1] == ai[0]:
                    refine_var(vb, (-INF, bi_[1] - 1))

    def _local_unchanged_after(self, bi, si, l):
        """Local l is not assigned (nor mutably borrowed) after statement si in block bi."""
        for s2 in self.body.blocks[bi]["stmts"][si + 1:]:
            if s2["k"] == "assign":
                if s2["place"]["l"] == l:
                    return False
                rv = s2["rv"]
                if rv["k"] in ("ref", "rawptr") and rv.get("mut") and rv["place"]["l"] == l:
                    return False
        return True

    def _field_unchanged_after(self, bi, si, fvar):
        """No statement after index si in block bi stores to the tracked field (the terminator is the branch)."""
        for s2 in self.body.blocks[bi]["stmts"][si + 1:]:
            if s2["k"] == "assign" and s2["place"].get("p") and field_var(s2["place"]) == fvar:
                return False
            if s2["k"] == "assign" and s2["place"]["l"] == fvar[1] and not s2["place"].get("p"):
                return False
        return True

    def _ssa_like(self, l):
        """The local holds one value for its whole life: an argument never reassigned or a local with a
        single definition, and never mutably borrowed."""
        cache = self.__dict__.setdefault("_ssa", {})
        if l in cache:
            return cache[l]
        body = self.body
        nd = len(defuse(body).defs.get(l, []))
        ok = (nd == 0 and 1 <= l <= body.arg_count) or (nd == 1 and not (1 <= l <= body.arg_count))
        if ok:
            for bi, si, s in body.stmts():
                if s["k"] == "assign":
                    rv = s["rv"]
                    if rv["k"] in ("ref", "rawptr") and rv.get("mut") and rv["place"]["l"] == l:
                        ok = False
                        break
                    if s["place"]["l"] == l and s["place"].get("p"):
                        ok = False
                        break
        cache[l] = ok
        return ok

    def _cond_def_valid(self, bi, l):
        """The comparison defining bool local l may be used for refinement at the end of block bi if the
        compared locals are not redefined after the comparison: true for single-def temporaries; for the
        rest require the definition to be in block bi itself."""
        d = defuse(self.body).single_def(l)
        return d is not None

    def edge_states(self, bi, st):
        """States on each successor edge of block bi given the state before its terminator."""
        body = self.body
        t = body.blocks[bi]["term"]
        succs = self.cfg.succ.get(bi, [])
        k = t["k"]
        out = []
        if k == "switch":
            discr = t["discr"]
            dl = op_local(discr)
            dty = body.place_ty(op_place(discr)) if op_place(discr) else None
            is_bool = dty is not None and dty.k == "bool"
            vals = t["values"]
            for i, s in enumerate(succs):
                ns = st.copy()
                if i < len(vals):
                    v = vals[i]
                    if is_bool:
                        self.refine_cond(ns, discr, v != 0)
                    else:
                        var = self.var_of_op(ns, discr)
                        if var is not None:
                            ns.refine(var, (v, v))
                        self._refine_discr(ns, discr, v, True)
                else:
                    if is_bool and len(vals) == 1:
                        self.refine_cond(ns, discr, vals[0] == 0)
                    else:
                        var = self.var_of_op(ns, discr)
                        cur = self.op_itv(ns, discr)
                        if var is not None and cur is not None:
                            lo, hi = cur
                            sv = sorted(vals)
                            while sv and sv[0] == lo:
                                lo += 1
                                sv.pop(0)
                            while sv and sv[-1] == hi:
                                hi -= 1
                                sv.pop()
                            if lo <= hi:
                                ns.refine(var, (lo, hi))
                            else:
                                ns.dead = True
                        for v in vals:
                            self._refine_discr(ns, discr, v, False)
                out.append((s, ns))
            return out
        if k == "assert":
            ns = st.copy()
            self.refine_cond(ns, t["cond"], t["expected"])
            return [(succs[0], ns)] if succs else []
        if k == "call":
            ns = st.copy()
            self.call(ns, bi, t)
            return [(succs[0], ns)] if succs else []
        if k == "drop":
            return [(succs[0], st.copy())] if succs else []
        return [(s, st.copy()) for s in succs]

    def _refine_discr(self, st, discr, value, taken):
        """Switch on `discriminant(x)` of an Option/Result local: record some/none knowledge."""
        body = self.body
        l = op_local(discr)
        if l is None:
            return
        d = defuse(body).single_def(l)
        if not d or d[0] != "stmt" or d[3]["rv"]["k"] != "discr":
            return
        pl = d[3]["rv"]["place"]
        if pl.get("p"):
            return
        ty = body.local_ty(pl["l"])
        if ty.k == "adt" and ty.d["path"].endswith("option::Option"):
            if taken:
                st.refine(("some", pl["l"]), (value, value))
            elif value in (0, 1):
                st.refine(("some", pl["l"]), (1 - value, 1 - value))

    def _run(self):
        body = self.body
        cfg = self.cfg
        init = State()
        for l in range(1, body.arg_count + 1):
            if l in self.param_inv:
                init.set(("l", l), self.param_inv[l])
        for k, v in self.param_len.items():
            init.set(("len", k), v)
        self.escapes = {}
        self._cur_block = 0

        def on_escape(var, val):
            key = (self._cur_block, var)
            old = self.escapes.get(key)
            self.escapes[key] = val if old is None else join(old, val)
        init.on_escape = on_escape
        self.block_in = {0: init}
        visits = {}
        work = [0]
        inwork = {0}
        # process in RPO-ish order
        while work:
            bi = work.pop(0)
            inwork.discard(bi)
            st = self.block_in[bi].copy()
            if st.dead:
                continue
            self._cur_block = bi
            for s in body.blocks[bi]["stmts"]:
                if s["k"] == "assign":
                    self.assign(st, s)
                elif s["k"] == "set_discr":
                    pass
            self.results[bi] = st
            if body.blocks[bi]["term"]["k"] == "return":
                for kk, vv in st.v.items():
                    if kk[0] == "f":
                        st.on_escape(kk, vv)
            for (succ, ns) in self.edge_states(bi, st):
                if ns.dead:
                    continue
                if succ not in self.block_in:
                    self.block_in[succ] = ns
                    changed = True
                else:
                    visits[succ] = visits.get(succ, 0) + 1
                    widen = succ in self.loop_heads and visits[succ] > 64
                    changed = self.block_in[succ].join_with(ns, widen=widen)
                if changed and succ not in inwork:
                    work.append(succ)
                    inwork.add(succ)

    # ------------------------------------------------------------ queries
    def state_at(self, bi):
        return self.results.get(bi)


def load_invariants():
    import json, os
    p = os.path.join(os.path.dirname(os.path.dirname(os.path.abspath(__file__))), "tables", "invariants.json")
    FIELD_INVARIANTS.clear()
    if os.path.exists(p):
        for e in json.load(open(p))["field_invariants"]:
            FIELD_INVARIANTS[(e["adt"], e["field"])] = (e["lo"], e["hi"])
    return FIELD_INVARIANTS


load_invariants()


def analyse(body, field_inv=None):
    cache = getattr(body, "_itv", None)
    if cache is None:
        body._itv = Intervals(body, FIELD_INVARIANTS)
        cache = body._itv
    return cache


def check_field_invariants(prog):
    """Assume-guarantee for field invariants. Loads of an invariant-carrying field assume the invariant unless the
    field is being tracked since a store in the same function. Guarantee: (a) every construction supplies a value
    inside the invariant; (b) whenever a stored-to object can be observed again - function return, the reference
    being handed to a call, the reference local being re-assigned (next loop iteration) - the tracked value is
    inside the invariant; (c) stores through places the analysis cannot track, and &mut borrows of the field
    itself, fail. Returns list of (ok, adt, field, body, block, interval)."""
    from .mirutil import adt_match
    out = []
    for (adt, field), itv in FIELD_INVARIANTS.items():
        for b in prog.bodies:
            has_store = False
            for bi, si, s in b.stmts():
                if s["k"] != "assign":
                    continue
                rv = s["rv"]
                if rv["k"] == "aggregate" and rv.get("agg") == "adt" and adt_match(rv["adt"], adt) and field in rv.get("fields", []):
                    val_op = rv["ops"][rv["fields"].index(field)]
                    an = analyse(b)
                    st = an.block_in.get(bi)
                    if st is None:
                        continue
                    st = st.copy()
                    for s2 in b.blocks[bi]["stmts"]:
                        if s2 is s:
                            break
                        if s2["k"] == "assign":
                            an.assign(st, s2)
                    v = an.op_itv(st, val_op)
                    out.append((v is not None and v[0] >= itv[0] and v[1] <= itv[1], adt, field, b, bi, v))
                    continue
                pe = [e for e in s["place"].get("p", []) if e["k"] == "field"]
                if pe and pe[-1].get("n") == field and adt_match(pe[-1].get("adt"), adt):
                    fv = field_var(s["place"])
                    if fv is None or not any(e["k"] == "deref" for e in s["place"]["p"]):
                        # store the analysis cannot follow (index projection / by-value local): check the stored value itself
                        an = analyse(b)
                        st = an.block_in.get(bi)
                        if st is None:
                            continue
                        st = st.copy()
                        for s2 in b.blocks[bi]["stmts"]:
                            if s2 is s:
                                break
                            if s2["k"] == "assign":
                                an.assign(st, s2)
                        v = an._rv_itv(st, rv, b.place_ty(s["place"]))
                        out.append((v is not None and v[0] >= itv[0] and v[1] <= itv[1], adt, field, b, bi, v))
                    else:
                        has_store = True
                if rv["k"] in ("ref", "rawptr") and rv.get("mut"):
                    pe = [e for e in rv["place"].get("p", []) if e["k"] == "field"]
                    if pe and pe[-1].get("n") == field and adt_match(pe[-1].get("adt"), adt):
                        out.append((False, adt, field, b, bi, None))
            if has_store:
                an = analyse(b)
                n = 0
                for (bi, var), v in sorted(an.escapes.items(), key=lambda kv: (kv[0][0], str(kv[0][1]))):
                    last = var[2][-1]
                    if last[1] == field and adt_match(last[0], adt):
                        n += 1
                        out.append((v[0] >= itv[0] and v[1] <= itv[1], adt, field, b, bi, v))
                if n == 0:
                    # stores exist but no observation point was recorded: unreachable code or analysis gap -> fail closed
                    out.append((False, adt, field, b, 0, None))
    return out


def discharge_in_contexts(site, region):
    """Second attempt for functions with slice parameters: analyse the function once per call site inside
    `region` (a dict did -> blocks) with the argument lengths seen there. Sound for claims about paths
    through the region. Returns (proved, reason)."""
    body = site.body
    prog = body.prog
    if body.kind == "closure":
        return False, "closure"
    sl = [l for l in range(1, body.arg_count + 1) if body.local_ty(l).k == "ref" and body.local_ty(l).deref().k in ("slice", "str")]
    ints = [l for l in range(1, body.arg_count + 1) if body.local_ty(l).int_range() is not None]
    if not sl and not ints:
        return False, "no slice or integer parameter"
    callers = [(c, bb, k) for (c, bb, k) in prog.cg.callers.get(body.did, []) if c in region and bb in region[c]]
    if not callers or any(k != "direct" for (_c, _bb, k) in callers):
        return False, "called indirectly inside the region"
    reasons = []
    for (c, bb, k) in callers:
        cb = prog.by_did[c]
        an = analyse(cb)
        st = an.state_at(bb)
        if st is None:
            continue
        t = cb.blocks[bb]["term"]
        pl = {}
        pi = {}
        for l in sl:
            if l - 1 < len(t["args"]):
                pl[(l, ())] = an.len_itv(st, t["args"][l - 1])
        for l in ints:
            if l - 1 < len(t["args"]):
                v = an.op_itv(st, t["args"][l - 1])
                if v is not None:
                    pi[l] = v
        an2 = Intervals(body, FIELD_INVARIANTS, param_inv=pi, param_len=pl)
        ok, why = _discharge_with(site, an2)
        if not ok:
            return False, "in the context of %s: %s" % (cb.path, why)
        reasons.append("%s: %s" % (cb.name, why))
    return True, "per call site in region: " + "; ".join(reasons[:4])


def discharge(site, field_inv=None):
    """Try to prove that the panic site cannot fire. Returns (proved, reason)."""
    body = site.body
    an = analyse(body)
    return _discharge_with(site, an)


def _discharge_with(site, an):
    body = site.body
    st = an.state_at(site.bi)
    if st is None:
        return True, "block is unreachable under the analysis (dead edge)"
    t = site.term
    if site.kind == "assert":
        c = an.op_itv(st, t["cond"])
        want = 1 if t["expected"] else 0
        if c == (want, want):
            mk = t["msg"]["k"]
            if mk == "bounds":
                return True, "index %s < len %s" % (an.op_itv(st, t["msg"]["index"]), an.op_itv(st, t["msg"]["len"]))
            if mk == "overflow":
                return True, "%s of %s and %s stays in range" % (t["msg"]["op"], an.op_itv(st, t["msg"]["a"]), an.op_itv(st, t["msg"]["b"]))
            return True, "%s condition is constant" % mk
        mk = t["msg"]["k"]
        if mk == "overflow":
            return False, "%s of %s and %s may overflow" % (t["msg"]["op"], an.op_itv(st, t["msg"]["a"]), an.op_itv(st, t["msg"]["b"]))
        if mk == "bounds":
            return False, "index %s vs len %s" % (an.op_itv(st, t["msg"]["index"]), an.op_itv(st, t["msg"]["len"]))
        return False, "%s not excluded (%s)" % (mk, an.op_itv(st, t["msg"].get("a", t["cond"])))
    if site.kind.startswith("api:"):
        cls = site.kind[4:]
        args = t["args"]
        if cls == "index" and len(args) == 2:
            g = _cursor_prefix_guard(body, t) or _str_find_guard(body, t) or _find_window_guard(body, t)
            if g:
                return True, g
            base = an.len_itv(st, args[0])
            rb = an.range_bounds(st, args[1])
            if rb is not None:
                kind, a, b = rb
                if kind == "full":
                    return True, "full range"
                if kind == "from":
                    ok = a[1] <= base[0]
                    return ok, "start %s <= len %s" % (a, base)
                if kind == "to":
                    ok = b[1] <= base[0]
                    return ok, "end %s <= len %s" % (b, base)
                if kind == "range":
                    ok = a[1] <= b[0] and b[1] <= base[0]
                    return ok, "start %s <= end %s <= len %s" % (a, b, base)
            else:
                # plain usize index
                aty = body.place_ty(op_place(args[1])) if op_place(args[1]) else (body.prog.ty(args[1]["ty"]) if args[1]["k"] == "const" else None)
                if aty is not None and aty.int_range() is not None:
                    idx = an.op_itv(st, args[1])
                    ok = idx is not None and idx[1] < base[0]
                    return ok, "index %s < len %s" % (idx, base)
            return False, "unrecognised index argument"
        if cls == "slice-len" and len(args) == 2:
            g = _same_len_guard(an, st, body, args[0], args[1])
            if g:
                return True, g
            a, b = an.len_itv(st, args[0]), an.len_itv(st, args[1])
            ok = a[0] == a[1] == b[0] == b[1]
            return ok, "destination len %s, source len %s" % (a, b)
        if cls == "split" and len(args) == 2:
            base = an.len_itv(st, args[0])
            mid = an.op_itv(st, args[1])
            ok = mid is not None and mid[1] <= base[0]
            return ok, "mid %s <= len %s" % (mid, base)
        if cls == "slice-range" and len(args) == 3:
            base = an.len_itv(st, args[0])
            rb = an.range_bounds(st, args[1])
            dst = an.op_itv(st, args[2])
            if rb is not None and dst is not None:
                kind, a, b = rb
                if kind == "to":
                    a = (0, 0)
                if kind == "from":
                    b = base
                if kind == "full":
                    a, b = (0, 0), base
                ok = a[1] <= b[0] and b[1] <= base[0] and dst[1] + (b[1] - a[0]) <= base[0]
                return ok, "src %s..%s, dest %s, len %s" % (a, b, dst, base)
            return False, "unrecognised copy_within arguments"
        if cls == "msgbuf" and len(args) == 2:
            kk = key_of(body, op_place(args[0])) if op_place(args[0]) else None
            start = st.get(("mbstart", kk)) if kk is not None else None
            n = an.op_itv(st, args[1])
            if start is not None and n is not None:
                ok = start[1] + n[1] <= 65535
                return ok, "start %s + length %s <= 65535" % (start, n)
            return False, "buffer start not known (length %s)" % (n,)
        if cls in ("unwrap", "expect") and args:
            l = op_local(args[0])
            s = st.get(("some", l)) if l is not None else None
            if s == (1, 1):
                return True, "receiver is known to be Some"
            return False, "receiver not known to be Some/Ok"
    return False, "no automatic argument"


def msgbuffer_model_ok(prog):
    """Structural verification of the MsgBuffer model used by the interval analysis:
    len() = end - start, is_empty() = (start == end), message()/message_mut() = buffer[start..end]."""
    from .mirutil import place_is_field, origin
    from .facts import AnchorError
    res = []

    def fn(name):
        hits = [b for b in prog.bodies if b.path == "util::MsgBuffer::" + name]
        if len(hits) != 1:
            raise AnchorError("MsgBuffer::%s not found" % name)
        return hits[0]

    def field_of(body, op):
        p = op_place(op)
        if p is None:
            return None
        r = root_place(body, p)
        for f in ("start", "end", "buffer", "space_before"):
            if place_is_field(r, "MsgBuffer", f):
                return f
        return None

    b = fn("len")
    subs = [s for bi, si, s in b.stmts() if s["k"] == "assign" and s["rv"]["k"] == "binop" and s["rv"]["op"].startswith("Sub")]
    res.append(("len=end-start", len(subs) == 1 and field_of(b, subs[0]["rv"]["a"]) == "end" and field_of(b, subs[0]["rv"]["b"]) == "start", b))
    b = fn("is_empty")
    eqs = [s for bi, si, s in b.stmts() if s["k"] == "assign" and s["rv"]["k"] == "binop" and s["rv"]["op"] == "Eq"]
    res.append(("is_empty=(start==end)", len(eqs) == 1 and {field_of(b, eqs[0]["rv"]["a"]), field_of(b, eqs[0]["rv"]["b"])} == {"start", "end"}, b))
    for name in ("message", "message_mut"):
        b = fn(name)
        rngs = [s for bi, si, s in b.stmts() if s["k"] == "assign" and s["rv"]["k"] == "aggregate" and s["rv"].get("adt", "").endswith("ops::Range")]
        ok = len(rngs) == 1 and field_of(b, rngs[0]["rv"]["ops"][0]) == "start" and field_of(b, rngs[0]["rv"]["ops"][1]) == "end"
        idx = [t for bi, t in b.calls() if callee_is(t, "ops::Index::index", "ops::IndexMut::index_mut")]
        ok = ok and len(idx) == 1 and field_of(b, idx[0]["args"][0]) == "buffer"
        res.append(("%s=buffer[start..end]" % name, ok, b))
    return res


def _cursor_prefix_guard(body, t):
    """buf[0..pos] / buf[..pos] where pos = cursor.position() and buf = cursor.into_inner()/get_ref() of the
    same std::io::Cursor local, which is never repositioned in this body: a Cursor only advances by the number
    of bytes actually read or written, so position() <= len of its buffer."""
    from .mirutil import origin
    args = t["args"]
    rng = origin(body, args[1])
    if rng[0] != "rvalue" or rng[2]["rv"]["k"] != "aggregate":
        return None
    rv = rng[2]["rv"]
    adt = rv.get("adt", "")
    if adt.endswith("ops::Range"):
        if op_const(rv["ops"][0]) != 0:
            return None
        end = rv["ops"][1]
    elif adt.endswith("ops::RangeTo"):
        end = rv["ops"][0]
    else:
        return None
    eo = origin(body, end)
    if eo[0] != "call" or not callee_is(eo[2], "io::Cursor::position"):
        return None
    bo = origin(body, args[0])
    if bo[0] != "call" or not callee_is(bo[2], "io::Cursor::into_inner", "io::Cursor::get_ref", "io::Cursor::get_mut"):
        return None
    c1 = root_place(body, op_place(eo[2]["args"][0])) if op_place(eo[2]["args"][0]) else None
    c2 = root_place(body, op_place(bo[2]["args"][0])) if op_place(bo[2]["args"][0]) else None
    if c1 is None or c2 is None or c1["l"] != c2["l"] or c1.get("p") or c2.get("p"):
        return None
    cur = c1["l"]
    for bi, tt in body.calls():
        if callee_is(tt, "io::Cursor::set_position", "io::Seek::seek", "io::Seek::rewind", "io::Seek::seek_relative") and tt["args"]:
            r = root_place(body, op_place(tt["args"][0])) if op_place(tt["args"][0]) else None
            if r is not None and r["l"] == cur:
                return None
    return "prefix up to Cursor::position() of the cursor's own buffer; the cursor is never repositioned"


def _str_find_guard(body, t):
    """s[..pos] / s[pos..] / s[pos + 1..] where pos is the payload of Some returned by s.find(c) for a
    one-byte (ASCII) char constant c on the same string: pos is a char boundary < len and so is pos + 1."""
    from .mirutil import origin
    args = t["args"]
    rng = origin(body, args[1])
    if rng[0] != "rvalue" or rng[2]["rv"]["k"] != "aggregate":
        return None
    rv = rng[2]["rv"]
    adt = rv.get("adt", "")
    if not (adt.endswith("ops::RangeTo") or adt.endswith("ops::RangeFrom")):
        return None
    bound = rv["ops"][0]

    def find_call(op, allow_plus1):
        p = op_place(op)
        if p is None:
            return None
        r = root_place(body, p)
        projs = [e for e in r.get("p", []) if e["k"] != "deref"]
        if len(projs) == 2 and projs[0]["k"] == "downcast" and projs[0].get("v") == "Some" and projs[1]["k"] == "field":
            d = defuse(body).single_def(r["l"])
            if d and d[0] == "call" and callee_is(d[2], "str::<impl str>::find"):
                return d[2]
            return None
        if len(projs) == 1 and projs[0]["k"] == "field" and projs[0]["i"] == 0 and allow_plus1:
            d = defuse(body).single_def(r["l"])
            if d and d[0] == "stmt" and d[3]["rv"]["k"] == "binop" and d[3]["rv"]["op"] in ("AddWithOverflow", "Add") and op_const(d[3]["rv"]["b"]) == 1:
                return find_call(d[3]["rv"]["a"], False)
        if not projs:
            d = defuse(body).single_def(r["l"])
            if d and d[0] == "stmt" and d[3]["rv"]["k"] == "use":
                return find_call(d[3]["rv"]["op"], allow_plus1)
        return None

    fc = find_call(bound, adt.endswith("ops::RangeFrom"))
    if fc is None:
        return None
    pat = fc["args"][1]
    c = op_const(pat)
    if c is None or not (0 <= c < 128):
        return None
    s1 = deep_root(body, fc["args"][0])
    s2 = deep_root(body, args[0])
    if s1 is None or s2 is None or s1["l"] != s2["l"] or _names_of(s1) != _names_of(s2):
        return None
    return "index is the position returned by find(ASCII char) on the same string (a char boundary below len)"


def _names_of(place):
    return tuple(str(e.get("n", e.get("i"))) for e in place.get("p", []) if e["k"] == "field")


def _same_len_guard(an, st, body, dst, src):
    """copy_from_slice(x[0..n], src) / (x[..n], src) where n = src.len(): equal lengths by construction."""
    from .mirutil import origin
    o = origin(body, dst)
    if o[0] != "call" or not callee_is(o[2], "ops::Index::index", "ops::IndexMut::index_mut"):
        return None
    rng = origin(body, o[2]["args"][1])
    if rng[0] != "rvalue" or rng[2]["rv"]["k"] != "aggregate":
        return None
    rv = rng[2]["rv"]
    adt = rv.get("adt", "")
    if adt.endswith("ops::Range"):
        if op_const(rv["ops"][0]) != 0:
            return None
        end = rv["ops"][1]
    elif adt.endswith("ops::RangeTo"):
        end = rv["ops"][0]
    else:
        return None
    eo = origin(body, end)
    if eo[0] != "call" or not eo[2]["args"]:
        return None
    c = eo[2].get("callee") or {}
    if c.get("name") != "len":
        return None
    k1 = key_of(body, op_place(eo[2]["args"][0])) if op_place(eo[2]["args"][0]) else None
    k2 = key_of(body, op_place(src)) if op_place(src) else None
    if k1 is None or k2 is None or k1 != k2:
        return None
    # the base must be long enough: that is the Index site's own obligation
    return "destination is x[0..n] with n = len() of the source slice"


def _find_window_guard(body, t):
    """s[a..b] with b = a + k where k is the payload of Some returned by s[a..].find(..): the match lies inside
    s[a..], so a + k <= len(s) (and both ends are char boundaries provided a is one, which the sibling site
    s[a..] requires anyway)."""
    from .mirutil import origin
    args = t["args"]
    rng = origin(body, args[1])
    if rng[0] != "rvalue" or rng[2]["rv"]["k"] != "aggregate" or not rng[2]["rv"].get("adt", "").endswith("ops::Range"):
        return None
    a_op, b_op = rng[2]["rv"]["ops"]
    pa = op_place(a_op)
    pb = op_place(b_op)
    if pa is None or pb is None:
        return None
    ra = root_place(body, pa)
    rb = root_place(body, pb)
    # b = (a + k).0
    projs = [e for e in rb.get("p", []) if e["k"] != "deref"]
    d = defuse(body).single_def(rb["l"])
    if not (len(projs) == 1 and projs[0]["k"] == "field" and projs[0]["i"] == 0 and d and d[0] == "stmt"):
        return None
    rv = d[3]["rv"]
    if rv["k"] != "binop" or rv["op"] not in ("AddWithOverflow", "Add"):
        return None
    x, k = rv["a"], rv["b"]
    px = op_place(x)
    if px is None or not _same_place(root_place(body, px), ra):
        return None
    # k = (find_result as Some).0
    pk = op_place(k)
    if pk is None:
        return None
    rk = root_place(body, pk)
    kp = [e for e in rk.get("p", []) if e["k"] != "deref"]
    if not (len(kp) == 2 and kp[0]["k"] == "downcast" and kp[0].get("v") == "Some"):
        return None
    dk = defuse(body).single_def(rk["l"])
    if not (dk and dk[0] == "call" and callee_is(dk[2], "str::<impl str>::find")):
        return None
    # receiver of find is s[a..] of the same string
    o = origin(body, dk[2]["args"][0])
    if o[0] != "call" or not callee_is(o[2], "ops::Index::index"):
        return None
    r2 = origin(body, o[2]["args"][1])
    if r2[0] != "rvalue" or not r2[2]["rv"].get("adt", "").endswith("ops::RangeFrom"):
        return None
    pa2 = op_place(r2[2]["rv"]["ops"][0])
    if pa2 is None or not _same_place(root_place(body, pa2), ra):
        return None
    s1 = deep_root(body, o[2]["args"][0])
    s2 = deep_root(body, args[0])
    if s1 is None or s2 is None or s1["l"] != s2["l"]:
        return None
    # the local `a` must not be redefined between the three uses: single definition
    if len(defuse(body).defs.get(ra["l"], [])) != 1:
        return None
    return "window [a..a+k] with k = position found inside s[a..]"


def _same_place(a, b):
    if a["l"] != b["l"]:
        return False
    pa = [(e["k"], e.get("i"), e.get("l")) for e in a.get("p", [])]
    pb = [(e["k"], e.get("i"), e.get("l")) for e in b.get("p", [])]
    return pa == pb


_RET_LEN = {}


def ret_len_summary(body):
    """Interval of the length of the sequence returned by a local function (join over its return blocks)."""
    if body.did in _RET_LEN:
        return _RET_LEN[body.did]
    if body.did in _IN_PROGRESS or len(_IN_PROGRESS) > 6:
        return None
    _IN_PROGRESS.add(body.did)
    try:
        an = analyse(body)
        acc = None
        for bi in body.cfg.exits:
            st = an.state_at(bi)
            if st is None:
                continue
            v = st.get(("len", (0, ())))
            if v is None:
                acc = None
                break
            acc = v if acc is None else join(acc, v)
    finally:
        _IN_PROGRESS.discard(body.did)
    _RET_LEN[body.did] = acc
    return acc
