"""A3: CFG utilities over MIR bodies: non-cleanup sub-CFG, dominators/post-dominators on an
edge-split graph, control dependence, natural loops."""


def term_succs(t):
    """Successor block indices of a terminator on the non-unwinding path."""
    k = t["k"]
    if k == "goto":
        return [t["target"]]
    if k == "switch":
        return list(t["targets"]) + [t["otherwise"]]
    if k in ("call",):
        return [t["target"]] if t["target"] is not None else []
    if k in ("assert", "drop"):
        return [t["target"]]
    return []


class CFG:
    """Nodes are basic-block indices (ints) of non-cleanup blocks. Edge nodes used for edge-based
    dominance are tuples ('e', src, k) where k is the k-th successor slot of src."""

    def __init__(self, body):
        self.body = body
        n = len(body.blocks)
        self.n = n
        self.succ = {}
        self.pred = {i: [] for i in range(n)}
        self.reach = set()
        # reachable non-cleanup blocks from entry
        stack = [0]
        while stack:
            b = stack.pop()
            if b in self.reach:
                continue
            if body.blocks[b].get("cleanup"):
                continue
            self.reach.add(b)
            ss = [s for s in term_succs(body.blocks[b]["term"]) if not body.blocks[s].get("cleanup")]
            self.succ[b] = ss
            for s in ss:
                stack.append(s)
        for b, ss in self.succ.items():
            for s in ss:
                self.pred[s].append(b)
        self.exits = [b for b in self.reach if body.blocks[b]["term"]["k"] == "return"]
        # diverging ends: unreachable / no-target calls (panics, process::exit)
        self.diverge = [b for b in self.reach if not self.succ[b] and body.blocks[b]["term"]["k"] != "return"]
        self._dom = None
        self._pdom = None
        self._edom = None
        self._has_try = None

    # ---------------------------------------------------------------- edge-split graph
    def _split_graph(self):
        """Graph with a node per block and a node per edge."""
        succ = {}
        for b in self.reach:
            out = []
            for k, s in enumerate(self.succ[b]):
                e = ("e", b, k)
                out.append(e)
                succ[e] = [s]
            succ[b] = out
        return succ

    @staticmethod
    def _dominators(succ, entry):
        # Cooper-Harvey-Kennedy
        order = []
        seen = set()
        stack = [(entry, iter(succ.get(entry, [])))]
        seen.add(entry)
        while stack:
            node, it = stack[-1]
            adv = False
            for s in it:
                if s not in seen:
                    seen.add(s)
                    stack.append((s, iter(succ.get(s, []))))
                    adv = True
                    break
            if not adv:
                order.append(node)
                stack.pop()
        rpo = list(reversed(order))
        idx = {n: i for i, n in enumerate(rpo)}
        pred = {n: [] for n in rpo}
        for n in rpo:
            for s in succ.get(n, []):
                if s in pred:
                    pred[s].append(n)
        idom = {entry: entry}
        changed = True
        while changed:
            changed = False
            for n in rpo[1:]:
                new = None
                for p in pred[n]:
                    if p in idom:
                        if new is None:
                            new = p
                        else:
                            a, b = p, new
                            while a != b:
                                while idx[a] > idx[b]:
                                    a = idom[a]
                                while idx[b] > idx[a]:
                                    b = idom[b]
                            new = a
                if new is not None and idom.get(n) != new:
                    idom[n] = new
                    changed = True
        return idom

    @property
    def edom(self):
        """Immediate dominators on the edge-split graph."""
        if self._edom is None:
            self._edom = self._dominators(self._split_graph(), 0)
        return self._edom

    def dominates(self, a, b):
        """a, b: block index or edge node. True if a dominates b (reflexive).  When plain dominance fails the
        question is asked again on feasible paths only (mirutil.feasible_reach: the variant of Result/Option
        temporaries is tracked, so "the spliced helper returned Err and the caller's `?` continued" is not a path)."""
        idom = self.edom
        if b not in idom or a not in idom:
            return False
        x = b
        while True:
            if x == a:
                return True
            p = idom[x]
            if p == x:
                break
            x = p
        if not getattr(self, "_has_try", None):
            if self._has_try is None:
                from .callgraph import callee_is
                self._has_try = any(blk["term"]["k"] == "call" and callee_is(blk["term"], "FromResidual>::from_residual", "from_residual")
                                    for blk in self.body.blocks) or False
            if not self._has_try:
                return False
        if isinstance(b, tuple):
            return False
        cache = self.__dict__.setdefault("_fdom", {})
        if a not in cache:
            # one feasible reachability per avoided node, shared by all queries about it
            from .mirutil import feasible_reach
            if isinstance(a, tuple):
                cache[a] = feasible_reach(self.body, [0], avoid_edges=[a])
            else:
                cache[a] = feasible_reach(self.body, [0], avoid_blocks=[a])
        return b not in cache[a]

    def edge(self, src, dst=None, slot=None):
        """Edge node(s) from src to dst."""
        out = []
        for k, s in enumerate(self.succ.get(src, [])):
            if (dst is None or s == dst) and (slot is None or slot == k):
                out.append(("e", src, k))
        return out

    def dominated_by_any_edge_set(self, edges, b):
        """True if every path from entry to b passes through one of `edges` (set domination)."""
        edges = set(edges)
        # remove the edges and test reachability
        seen = set()
        stack = [0]
        while stack:
            x = stack.pop()
            if x in seen:
                continue
            seen.add(x)
            if x == b:
                return False
            for k, s in enumerate(self.succ.get(x, [])):
                if ("e", x, k) in edges:
                    continue
                stack.append(s)
        return True

    def reachable_from(self, starts, avoid_blocks=(), avoid_edges=()):
        """Blocks reachable from the given blocks (inclusive) in the non-cleanup CFG."""
        avoid_blocks = set(avoid_blocks)
        avoid_edges = set(avoid_edges)
        seen = set()
        stack = [s for s in starts if s not in avoid_blocks]
        while stack:
            x = stack.pop()
            if x in seen:
                continue
            seen.add(x)
            for k, s in enumerate(self.succ.get(x, [])):
                if ("e", x, k) in avoid_edges or s in avoid_blocks:
                    continue
                stack.append(s)
        return seen

    def reachable_from_edge(self, e, avoid_blocks=(), avoid_edges=()):
        _, src, k = e
        return self.reachable_from([self.succ[src][k]], avoid_blocks, avoid_edges)

    # ---------------------------------------------------------------- post-dominators
    @property
    def pdom(self):
        if self._pdom is None:
            # reverse graph with virtual exit
            rsucc = {"X": list(self.exits) + list(self.diverge)}
            for b in self.reach:
                rsucc.setdefault(b, [])
            for b, ss in self.succ.items():
                for s in ss:
                    rsucc.setdefault(s, []).append(b)
            self._pdom = self._dominators(rsucc, "X")
        return self._pdom

    def postdominates(self, a, b):
        idom = self.pdom
        if b not in idom or a not in idom:
            return False
        x = b
        while True:
            if x == a:
                return True
            p = idom[x]
            if p == x:
                return False
            x = p

    # ---------------------------------------------------------------- loops
    def back_edges(self):
        out = []
        for b in self.reach:
            for s in self.succ[b]:
                if self.dominates(s, b):
                    out.append((b, s))
        return out

    def loops(self):
        """Natural loops: dict header -> set of blocks."""
        loops = {}
        for (t, h) in self.back_edges():
            body = loops.setdefault(h, set([h]))
            stack = [t]
            while stack:
                x = stack.pop()
                if x in body:
                    continue
                body.add(x)
                stack.extend(self.pred[x])
        return loops

    def loop_exits(self, header):
        """Edges (src, dst) leaving the loop with the given header."""
        body = self.loops()[header]
        out = []
        for b in body:
            for s in self.succ[b]:
                if s not in body:
                    out.append((b, s))
        return out

    def in_loop(self, b):
        return any(b in body for body in self.loops().values())

    # ---------------------------------------------------------------- control dependence
    def controlling_edges(self, b):
        """Set of edge nodes (switch edges) that b is control-dependent on, transitively:
        edges e=(s->t) of multi-successor blocks with b reachable from t... approximated through
        the standard definition: b postdominates t but not s."""
        out = set()
        for s in self.reach:
            if len(self.succ[s]) < 2:
                continue
            for k, t in enumerate(self.succ[s]):
                if self.postdominates(b, t) and not (self.postdominates(b, s) and b != s):
                    out.add(("e", s, k))
        return out

    # ---------------------------------------------------------------- paths
    def some_path(self, src, dst, avoid_edges=()):
        """A block path from src to dst (list) or None."""
        avoid_edges = set(avoid_edges)
        prev = {src: None}
        queue = [src]
        while queue:
            x = queue.pop(0)
            if x == dst:
                path = []
                while x is not None:
                    path.append(x)
                    x = prev[x]
                return list(reversed(path))
            for k, s in enumerate(self.succ.get(x, [])):
                if ("e", x, k) in avoid_edges:
                    continue
                if s not in prev:
                    prev[s] = x
                    queue.append(s)
        return None
