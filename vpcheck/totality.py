"""Totality engine: A8 enumeration + A9 discharge + reviewed table (DESIGN.md C08.R1-R3, C16.R1, C17.R1, C19.R1, C20.R4)."""
import json
import os
from collections import Counter

from .build import VERIF
from .panics import sites_in
from .intervals import discharge, discharge_in_contexts
from .engine import site_of

TABLE = os.path.join(VERIF, "tables", "panic_sites.json")


def load_table(section):
    if not os.path.exists(TABLE):
        return {}
    with open(TABLE) as f:
        t = json.load(f)
    out = {}
    for e in t.get(section, []):
        out[e["key"]] = e
    return out


EXT_TABLE = os.path.join(VERIF, "tables", "external_calls.json")
STD_CRATES = ("core", "std", "alloc")


def callee_crate(path):
    """Crate that defines the called item: first path segment, or the trait's crate for `<T as krate::Trait>::f`."""
    p = path
    if p.startswith("<"):
        i = p.find(" as ")
        if i >= 0:
            p = p[i + 4:]
        else:
            p = p[1:]
        p = p.lstrip("&").lstrip("<")
    return p.split("::", 1)[0].strip("<>&' ")


def load_external():
    if not os.path.exists(EXT_TABLE):
        return {}
    with open(EXT_TABLE) as f:
        t = json.load(f)
    return {e["path"]: e for e in t.get("total", [])}


def check_external_callees(cx, region, label):
    """Third-party code cannot be enumerated for panic sites (no MIR).  Every callee of a crate other than
    core/std/alloc called inside a totality region must therefore be either a recognised panicking API (then it
    is a panic site like any other) or listed as total, with a reason, in tables/external_calls.json.  A call to
    a third-party function nobody reviewed is reported - it may assert on its arguments."""
    from .panics import api_class
    from .callgraph import strip_generics
    prog = cx.prog
    table = load_external()
    seen = {}
    for did, blocks in sorted(region.items()):
        b = prog.by_did[did]
        for bi in sorted(blocks):
            t = b.blocks[bi]["term"]
            if t["k"] != "call" or not t.get("callee"):
                continue
            ce = t["callee"]
            if ce.get("local") or ce.get("resolved_local"):
                continue
            path = strip_generics(ce.get("path") or "")
            if callee_crate(path) in STD_CRATES:
                continue
            cls, _suf = api_class(t)
            if cls is not None:
                continue
            seen.setdefault(path, (b, bi))
    n_ok = 0
    for path, (b, bi) in sorted(seen.items()):
        e = table.get(path)
        if e is None:
            cx.check("%s:unreviewed-third-party-callee:%s" % (label, path), False, site_of(b, bi),
                     "call to %s: a third-party function that is neither a recognised panicking API nor listed as total in tables/external_calls.json (it may assert on its arguments)" % path)
        else:
            n_ok += 1
    cx.check("%s:third-party-callees" % label, True, None, "%d distinct third-party callees in the region, all reviewed as total or treated as panic sites" % n_ok, how="table")
    return len(seen)


def call_path(prog, entries, did):
    for e in entries:
        p = prog.cg.path(e.did, did)
        if p:
            return " -> ".join(prog.by_did[d].name or prog.by_did[d].path.split("::")[-1] for d in p)
    return "?"


def check_region(cx, region, section, entries, label, allow_table=True):
    """region: {did: set(blocks)}. Every panic site must be proved by A9 or be covered by a table entry of
    `section` (exact key, count not exceeded). Returns stats."""
    prog = cx.prog
    table = load_table(section) if allow_table else {}
    sites = []
    for did, blocks in sorted(region.items()):
        b = prog.by_did[did]
        cx.touch(b)
        sites += sites_in(b, blocks)
    auto = 0
    rest = {}
    for s in sites:
        try:
            ok, why = discharge(s)
        except Exception as e:  # analysis crash: not proved
            ok, why = False, "analysis error %r" % (e,)
        if not ok:
            try:
                ok2, why2 = discharge_in_contexts(s, region)
            except Exception as e:
                ok2, why2 = False, "analysis error %r" % (e,)
            if ok2:
                ok, why = True, why2
        if ok:
            auto += 1
        else:
            rest.setdefault(s.key(), []).append((s, why))
    tabled = 0
    for key, lst in sorted(rest.items()):
        e = table.get(key)
        if e is not None and len(lst) <= e["count"]:
            tabled += len(lst)
            cx.check("%s:table:%s" % (label, key), True, lst[0][0].where(),
                     "%d site(s) covered by reviewed table entry: %s" % (len(lst), e["reason"]), how="table")
            continue
        for (s, why) in lst:
            extra = ""
            if e is not None:
                extra = " (table lists %d site(s) of this key, found %d)" % (e["count"], len(lst))
            cx.check("%s:panic-site:%s" % (label, key), False, s.where(),
                     "possible panic not discharged: %s; reachable via %s%s" % (why, call_path(prog, entries, s.body.did), extra))
    check_external_callees(cx, region, label)
    # stale table entries are reported as notes (not failures): a removed site is not a violation
    used = set(rest.keys())
    for key in table:
        if key not in used:
            cx.note("%s: table entry %s matched no undischarged site" % (label, key))
    cx.check("%s:auto-discharged" % label, True, None,
             "%d panic sites in %d functions: %d proved by interval analysis, %d by reviewed table" % (len(sites), len(region), auto, tabled), how="auto")
    return {"sites": len(sites), "auto": auto, "tabled": tabled, "functions": len(region)}


def closure_region(prog, entries, stop=()):
    """Whole-body region of the call-graph closure from entries."""
    dids = prog.cg.closure([e.did for e in entries], stop=stop)
    return {d: set(prog.by_did[d].cfg.reach) for d in dids}


def dump_candidates(cx_prog, region, entries):
    """Development aid: undischarged keys with counts and an example site."""
    prog = cx_prog
    rest = {}
    for did, blocks in sorted(region.items()):
        for s in sites_in(prog.by_did[did], blocks):
            ok, why = discharge(s)
            if not ok:
                ok2, why2 = discharge_in_contexts(s, region)
                if ok2:
                    ok = True
            if not ok:
                rest.setdefault(s.key(), []).append((s, why))
    return rest
