"""Rule engine: obligations, verdicts, known findings, evidence, reports."""
import json
import os
import sys
import time
import traceback

from .facts import AnchorError
from .build import VERIF, InfraError, load_program

KNOWN_FILE = os.path.join(VERIF, "known_findings.txt")
EVIDENCE_DIR = os.path.join(VERIF, "evidence")
REPORT_DIR = os.path.join(VERIF, "reports")


class Obligation:
    __slots__ = ("rule", "key", "ok", "site", "msg", "how", "config", "detail")

    def __init__(self, rule, key, ok, site, msg, how, config, detail=None):
        self.rule = rule
        self.key = key
        self.ok = ok
        self.site = site
        self.msg = msg
        self.how = how
        self.config = config
        self.detail = detail

    def fullkey(self):
        return "%s:%s" % (self.rule, self.key)

    def as_dict(self):
        d = {"rule": self.rule, "key": self.key, "ok": self.ok, "site": self.site, "what": self.msg,
             "discharged_by": self.how, "config": self.config}
        if self.detail:
            d["detail"] = self.detail
        return d


class Ctx:
    """Per (property, configuration) rule context."""

    def __init__(self, prop, prog, tier):
        self.prop = prop
        self.prog = prog
        self.tier = tier
        self.obligations = []
        self.functions = set()
        self.call_sites = 0
        self.notes = []
        self.cur_rule = None

    def touch(self, *bodies):
        for b in bodies:
            if b is not None:
                self.functions.add(b.path)

    def check(self, key, ok, site=None, msg="", how="auto", detail=None, rule=None):
        """Record one obligation of the current rule. key: stable, line-free instance key."""
        o = Obligation(rule or self.cur_rule, key, bool(ok), site, msg, how, self.prog.config, detail)
        self.obligations.append(o)
        return bool(ok)

    def floor(self, key, count, minimum, what):
        """Fail closed when a rule matches fewer instances than confirmed by hand."""
        self.check("floor:" + key, count >= minimum, None,
                   "%s: matched %d instance(s), floor %d" % (what, count, minimum), how="count")

    def exact(self, key, count, expected, what, site=None):
        self.check("count:" + key, count == expected, site,
                   "%s: matched %d instance(s), expected exactly %d" % (what, count, expected), how="count")

    def note(self, s):
        self.notes.append(s)


def site_of(body, bi=None, span=None):
    """Human readable site: file:line function."""
    if span is None:
        if bi is not None:
            span = body.blocks[bi]["term"]["span"]
        else:
            span = body.span
    return "%s:%d in %s" % (span["file"], span["line"], body.path)


def load_known():
    known = {}
    fixed = []
    if not os.path.exists(KNOWN_FILE):
        return known, fixed
    for line in open(KNOWN_FILE):
        line = line.strip()
        if not line or line.startswith("#"):
            continue
        if line.startswith("known:"):
            rest = line[len("known:"):].strip()
            parts = rest.split(None, 2)
            # known: property=<id> <key> <what fails>
            if len(parts) >= 2 and parts[0].startswith("property="):
                pid = parts[0].split("=", 1)[1]
                known[(pid, parts[1])] = parts[2] if len(parts) > 2 else ""
        elif line.startswith("fixed:"):
            fixed.append(line)
    return known, fixed


def evaluate(prop, tier, rules, config, repo=None):
    """Run rules on one configuration of the given repository tree; return (ctx, prog)."""
    prog = load_program(config, repo)
    cx = Ctx(prop, prog, tier)
    per_rule = []
    for rid, fn, descr in rules:
        cx.cur_rule = rid
        n0 = len(cx.obligations)
        try:
            fn(cx)
        except AnchorError as e:
            cx.check("ANCHOR", False, None, "anchor missing (fail closed): %s" % e, how="anchor")
        except Exception as e:  # a crash of a rule must not pass silently
            tb = traceback.format_exc()
            cx.check("UNDECIDED", False, None, "rule crashed (fail closed): %r" % (e,), how="error", detail=tb[-1500:])
        if len(cx.obligations) == n0:
            cx.check("VACUOUS", False, None, "rule produced no obligation (vacuous pass refused)", how="count")
        per_rule.append({"rule": rid, "description": descr, "obligations": len(cx.obligations) - n0})
    cx.per_rule = per_rule
    return cx, prog


def run_property(prop, tier, rules, configs, level_text, assumptions, seed=0):
    """Run all rules of a property on all configurations; print verdict lines; write evidence and
    reports; return exit code."""
    t0 = time.time()
    os.makedirs(EVIDENCE_DIR, exist_ok=True)
    os.makedirs(REPORT_DIR, exist_ok=True)
    known, _fixed = load_known()
    all_obs = []
    functions = set()
    extract_s = 0.0
    bodies_n = {}
    notes = []
    rules_run = []
    for config in configs:
        try:
            cx, prog = evaluate(prop, tier, rules, config)
        except InfraError as e:
            print("INFRA-ERROR property=%s config=%s: %s" % (prop, config, e))
            return 2
        extract_s += getattr(prog, "extract_s", 0.0)
        bodies_n[config] = len(prog.bodies)
        if config == configs[0]:
            rules_run = cx.per_rule
        all_obs.extend(cx.obligations)
        functions |= cx.functions
        notes.extend(cx.notes)
    # verdicts
    violations = {}
    known_hits = {}
    for o in all_obs:
        if o.ok:
            continue
        k = o.fullkey()
        if (prop, k) in known:
            known_hits.setdefault(k, o)
        else:
            violations.setdefault(k, []).append(o)
    for o in all_obs:
        status = "ok " if o.ok else "FAIL"
        if not o.ok or os.environ.get("VPCHECK_VERBOSE"):
            print("  [%s] %s %s :: %s%s" % (o.config, status, o.fullkey(), o.msg, (" @ " + o.site) if o.site else ""))
    n_ok = sum(1 for o in all_obs if o.ok)
    print("property=%s tier=%s configs=%s rules=%d obligations=%d discharged=%d functions=%d" % (
        prop, tier, ",".join(configs), len(rules), len(all_obs), n_ok, len(functions)))
    for k, o in sorted(known_hits.items()):
        print("KNOWN-FINDING: property=%s %s %s" % (prop, k, known[(prop, k)] or o.msg))
    code = 0
    for k, obs in sorted(violations.items()):
        safe = "".join(ch if ch.isalnum() or ch in "._-" else "_" for ch in k)[:120]
        rp = os.path.join(REPORT_DIR, "%s-%s.json" % (prop, safe))
        with open(rp, "w") as f:
            json.dump({"property": prop, "key": k, "tier": tier, "instances": [o.as_dict() for o in obs]}, f, indent=1)
        print("VIOLATION property=%s replay=%s" % (prop, rp))
        code = 1
    # evidence
    samples = []
    seen_rules = set()
    for o in all_obs:
        if o.rule not in seen_rules or len(samples) < 12:
            if len(samples) < 40:
                samples.append(o.as_dict())
            seen_rules.add(o.rule)
    by_how = {}
    for o in all_obs:
        if o.ok:
            by_how[o.how] = by_how.get(o.how, 0) + 1
    ev = {
        "property_id": prop,
        "tier": tier,
        "seed": seed,
        "level": "other",
        "coverage": {
            "explanation": level_text,
            "obligations": len(all_obs),
            "discharged": n_ok + len([o for o in all_obs if not o.ok and (prop, o.fullkey()) in known]),
            "discharged_by": by_how,
            "known_findings": sorted(known_hits.keys()),
            "configurations": configs,
            "bodies_in_fact_base": bodies_n,
            "functions_analysed": len(functions),
            "functions": sorted(functions)[:200],
            "rules": rules_run,
            "samples": samples,
            "checker_cmd": "bin/check %s %s" % (prop, tier),
            "trusted_base": ["rustc nightly MIR construction", "vpfacts driver", "vpcheck analyses",
                             "reviewed tables under /verif/tables"],
            "exhaustive": False,
            "fact_extraction_s": round(extract_s, 2),
            "notes": notes[:50],
        },
        "assumptions": assumptions,
        "wall_s": round(time.time() - t0, 2),
        "violations": len(violations),
    }
    with open(os.path.join(EVIDENCE_DIR, "%s.json" % prop), "w") as f:
        json.dump(ev, f, indent=1)
    sys.stdout.flush()
    return code
