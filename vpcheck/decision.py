"""A12: constant decision tables: which constant reaches a destination under which enum/bool conditions."""
from .facts import op_place, op_local, op_const, AnchorError
from .mirutil import defuse, root_place, adt_match


def enum_switch_edges(body):
    """All switch edges on `discriminant(place)`; returns list of (edge, place, variant_index_value)."""
    du = defuse(body)
    out = []
    for bi in body.cfg.reach:
        t = body.blocks[bi]["term"]
        if t["k"] != "switch":
            continue
        l = op_local(t["discr"])
        if l is None:
            continue
        d = du.single_def(l)
        if not d or d[0] != "stmt" or d[3]["rv"]["k"] != "discr":
            continue
        place = root_place(body, d[3]["rv"]["place"])
        ty = body.place_ty(d[3]["rv"]["place"]).deref()
        for k, v in enumerate(t["values"]):
            out.append((("e", bi, k), place, ty, v, False))
        # otherwise edge: complement
        out.append((("e", bi, len(t["values"])), place, ty, tuple(t["values"]), True))
    return out


def variant_name(prog, ty, discr):
    if ty.k != "adt":
        return None
    adt = prog.adts.get(ty.d["path"])
    if adt is None:
        # well-known externals
        if ty.d["path"].endswith("option::Option"):
            return {0: "None", 1: "Some"}.get(discr)
        if ty.d["path"].endswith("result::Result"):
            return {0: "Ok", 1: "Err"}.get(discr)
        return None
    for v in adt["variants"]:
        if v.get("discr", v["index"]) == discr:
            return v["name"]
    return None


def all_variants(prog, ty):
    adt = prog.adts.get(ty.d["path"]) if ty.k == "adt" else None
    if adt is None:
        return None
    return [(v.get("discr", v["index"]), v["name"]) for v in adt["variants"]]


def conditions_of_block(body, block):
    """Enum conditions (field name -> set of possible variant names) established by switch edges
    dominating `block`."""
    prog = body.prog
    conds = {}
    cfg = body.cfg
    for (edge, place, ty, val, is_otherwise) in enum_switch_edges(body):
        if not cfg.dominates(edge, block):
            continue
        fields = [e.get("n") for e in place.get("p", []) if e["k"] == "field"]
        name = fields[-1] if fields else "_%d" % place["l"]
        if is_otherwise:
            av = all_variants(prog, ty)
            if av is None:
                continue
            names = set(n for d, n in av if d not in val)
        else:
            n = variant_name(prog, ty, val)
            if n is None:
                continue
            names = {n}
        if name in conds:
            conds[name] &= names
        else:
            conds[name] = names
    return conds


def constant_defs(body, op):
    """For an operand that reads local L (optionally tuple field i): all definitions of L with the
    constant stored (or None if not constant) and the block. Returns list of (block, value)."""
    p = op_place(op)
    if p is None:
        c = op_const(op)
        return [(0, c)] if c is not None else []
    r = root_place(body, p)
    idx = None
    fs = [e for e in r.get("p", []) if e["k"] == "field"]
    if fs:
        idx = fs[-1]["i"]
    out = []
    for d in defuse(body).defs.get(r["l"], []):
        if d[0] != "stmt":
            out.append((d[1], None))
            continue
        rv = d[3]["rv"]
        if rv["k"] == "aggregate" and idx is not None and idx < len(rv["ops"]):
            out.append((d[1], op_const(rv["ops"][idx])))
        elif rv["k"] == "use" and idx is None:
            out.append((d[1], op_const(rv["op"])))
        else:
            out.append((d[1], None))
    return out


def table_by_conditions(body, op):
    """[(conditions dict, constant)] for the value read by `op`."""
    return [(conditions_of_block(body, blk), val) for blk, val in constant_defs(body, op)]


def lookup(table, assignment):
    """Values of entries whose conditions are consistent with the assignment {field: variant}."""
    vals = []
    for conds, val in table:
        ok = True
        for f, names in conds.items():
            if f in assignment and assignment[f] not in names:
                ok = False
        if ok:
            vals.append(val)
    return vals


def lookup_by_reachability(body, op, assignment):
    """Values of the constant definitions feeding `op` that are reachable when the enum places named in
    `assignment` ({field name: variant name}) hold those variants: switch edges on those places that contradict
    the assignment are pruned, everything else is followed (exact for the finitely many assignments; handles
    or-patterns and tuple matches, where no single edge dominates an arm)."""
    prog = body.prog
    cfg = body.cfg
    dead = set()
    for (edge, place, ty, val, is_otherwise) in enum_switch_edges(body):
        fields = [e.get("n") for e in place.get("p", []) if e["k"] == "field"]
        name = fields[-1] if fields else "_%d" % place["l"]
        if name not in assignment:
            continue
        av = all_variants(prog, ty)
        if av is None:
            continue
        want = [d for d, n in av if n == assignment[name]]
        if not want:
            continue
        w = want[0]
        if is_otherwise:
            if w in val:
                dead.add(edge)
        elif val != w:
            dead.add(edge)
    reach = cfg.reachable_from([0], avoid_edges=dead)
    return [v for blk, v in constant_defs(body, op) if blk in reach]
