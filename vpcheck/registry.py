"""Property -> rules registry and runner."""
import importlib
import os

from .engine import run_property

GENERAL_ASSUMPTIONS = [
    "rustc nightly's MIR (dev profile, mir-opt-level=0) faithfully represents the program",
    "ring's cryptographic contracts (Ed25519 verify, AEAD open/seal) hold",
    "reviewed table entries under /verif/tables are correct",
]

# property id -> explanation of what the static check decides
LEVEL_TEXT = {}

PROPERTIES = {}


def _load():
    for pid in ["c%02d" % i for i in range(1, 21)]:
        try:
            m = importlib.import_module(".rules." + pid, __package__)
        except ModuleNotFoundError as e:
            if e.name and e.name.endswith(pid):
                continue
            raise
        PROPERTIES[pid.upper()] = {
            "rules": m.RULES,
            "level_text": getattr(m, "LEVEL_TEXT", ""),
            "assumptions": GENERAL_ASSUMPTIONS + list(getattr(m, "ASSUMPTIONS", [])),
        }


_load()


def run(prop, tier):
    if prop not in PROPERTIES:
        print("unknown or unclaimed property %s" % prop)
        return 2
    p = PROPERTIES[prop]
    configs = ["default"] if tier == "quick" else ["default", "minimal"]
    seed = int(os.environ.get("VERIF_SEED", "0") or 0)
    code = run_property(prop, tier, p["rules"], configs, p["level_text"] or "static rules over MIR", p["assumptions"], seed)
    if tier == "thorough" and code == 0:
        from .selftest import run_selftest
        code = run_selftest(prop)
    return code
