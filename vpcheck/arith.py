"""A13: arithmetic terms.  Trace an integer operand back through single-definition temporaries to a term over
constants, lengths of argument slices and opaque leaves; the term can then be compared against a required bound
for every admissible length (a finite check of an inequality between two closed formulas - no program code is
executed).  Checked `XWithOverflow` operations are read as X (their overflow assert is a separate panic site)."""
from .facts import op_place, op_const
from .callgraph import callee_is
from .mirutil import defuse, root_place, deep_root

LEN_CALLS = ("slice::<impl [T]>::len", "vec::Vec::len", "str::<impl str>::len", "string::String::len", "smallvec::SmallVec::len")


def term_of(body, op, depth=0, variables=None, auto_vars=False):
    """Returns ('c', n) | ('len', arg_local) | ('var', name) | ('op', name, a, b) | ('cast', bits, t) | ('leaf', text).
    `variables` maps locals to variable names (the term is then a function of those variables)."""
    if depth > 24:
        return ("leaf", "depth")
    if op.get("k") == "const":
        v = op_const(op)
        return ("c", v) if isinstance(v, int) else ("leaf", "const")
    place = op["place"] if op.get("k") in ("copy", "move") else op
    projs = place.get("p") or []
    l = place["l"]
    du = defuse(body)
    # _7.0 of a checked operation
    if len(projs) == 1 and projs[0]["k"] == "field" and projs[0].get("i") == 0:
        d = du.single_def(l)
        if d and d[0] == "stmt" and d[3]["rv"]["k"] == "binop" and d[3]["rv"]["op"].endswith("WithOverflow"):
            rv = d[3]["rv"]
            return ("op", rv["op"][:-len("WithOverflow")], term_of(body, rv["a"], depth + 1, variables, auto_vars), term_of(body, rv["b"], depth + 1, variables, auto_vars))
    if projs:
        if auto_vars:
            return ("var", "_%d%s" % (l, "".join("." + str(e.get("v", e.get("n", e.get("i", e["k"])))) for e in projs)))
        return ("leaf", "projected place")
    if variables and l in variables:
        return ("var", variables[l])
    if 1 <= l <= body.arg_count:
        return ("leaf", "arg%d" % l)
    d = du.single_def(l)
    if d is None:
        return ("var", "_%d" % l) if auto_vars else ("leaf", "multi-def _%d" % l)
    if d[0] == "call":
        t = d[2]
        if callee_is(t, *LEN_CALLS) and t["args"]:
            r = deep_root(body, t["args"][0])
            if r is not None and 1 <= r["l"] <= body.arg_count and not [e for e in (r.get("p") or []) if e["k"] != "deref"]:
                return ("len", r["l"])
        return ("var", "_%d" % l) if auto_vars else ("leaf", "call")
    rv = d[3]["rv"]
    if rv["k"] == "use":
        return term_of(body, rv["op"], depth + 1, variables, auto_vars)
    if rv["k"] == "cast" and rv["cast"].startswith("IntToInt"):
        dty = body.local_ty(l)
        inner = term_of(body, rv["op"], depth + 1, variables, auto_vars)
        if dty.k == "int" and not dty.d.get("signed"):
            return ("cast", dty.d["bits"], inner)
        return inner
    if rv["k"] == "binop" and rv["op"] in ("Add", "Sub", "Mul", "Div", "Rem", "Shl", "Shr", "BitAnd", "BitOr", "BitXor", "AddUnchecked", "SubUnchecked", "MulUnchecked", "ShlUnchecked", "ShrUnchecked"):
        return ("op", rv["op"].replace("Unchecked", ""), term_of(body, rv["a"], depth + 1, variables, auto_vars), term_of(body, rv["b"], depth + 1, variables, auto_vars))
    return ("leaf", rv["k"])


def leaves(t):
    if t[0] == "op":
        return leaves(t[2]) + leaves(t[3])
    if t[0] == "cast":
        return leaves(t[2])
    return [t]


def evaluate(t, lens):
    """Evaluate with unsigned integer semantics; None if a leaf is opaque or the value is undefined."""
    if t[0] == "c":
        return t[1]
    if t[0] == "len":
        return lens.get(t[1])
    if t[0] == "var":
        return lens.get(t[1])
    if t[0] == "cast":
        v = evaluate(t[2], lens)
        return None if v is None else v & ((1 << t[1]) - 1)
    if t[0] == "op":
        a, b = evaluate(t[2], lens), evaluate(t[3], lens)
        if a is None or b is None:
            return None
        o = t[1]
        if o == "Add":
            return a + b
        if o == "Sub":
            return a - b if a >= b else None
        if o == "Mul":
            return a * b
        if o == "Div":
            return a // b if b else None
        if o == "Rem":
            return a % b if b else None
        if o == "Shl":
            return a << b
        if o == "Shr":
            return a >> b
        if o == "BitAnd":
            return a & b
        if o == "BitOr":
            return a | b
        if o == "BitXor":
            return a ^ b
    return None


def show(t):
    if t[0] == "c":
        return str(t[1])
    if t[0] == "len":
        return "len(arg%d)" % t[1]
    if t[0] == "var":
        return str(t[1])
    if t[0] == "cast":
        return "(%s as u%d)" % (show(t[2]), t[1])
    if t[0] == "op":
        sym = {"Add": "+", "Sub": "-", "Mul": "*", "Div": "/", "Rem": "%", "Shl": "<<", "Shr": ">>", "BitAnd": "&", "BitOr": "|", "BitXor": "^"}[t[1]]
        return "(%s %s %s)" % (show(t[2]), sym, show(t[3]))
    return "?%s" % t[1]
