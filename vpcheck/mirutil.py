"""Shared MIR queries: definitions, root places, result-flow tracing (A4), gate functions (A5),
who-may-write / who-may-construct (A7), simple may-flow (A11)."""
from .facts import AnchorError, op_place, op_local, op_const, place_fields
from .callgraph import callee_is, strip_generics
from .cfg import term_succs


def adt_match(adt, suffix):
    if adt is None:
        return False
    a = strip_generics(adt)
    return a == suffix or a.endswith("::" + suffix)


# ------------------------------------------------------------------ definitions / uses

class DefUse:
    """Definitions of bare locals in a body (statements and call destinations)."""

    def __init__(self, body):
        self.body = body
        self.defs = {}  # local -> list of ('stmt', bi, si, stmt) | ('call', bi, term)
        for bi, blk in enumerate(body.blocks):
            if blk.get("cleanup"):
                continue
            for si, s in enumerate(blk["stmts"]):
                if s["k"] == "assign" and not s["place"].get("p"):
                    self.defs.setdefault(s["place"]["l"], []).append(("stmt", bi, si, s))
            t = blk["term"]
            if t["k"] == "call" and not t["dest"].get("p"):
                self.defs.setdefault(t["dest"]["l"], []).append(("call", bi, t))

    def single_def(self, l):
        d = self.defs.get(l, [])
        if len(d) == 1:
            return d[0]
        return None


def defuse(body):
    if not hasattr(body, "_du"):
        body._du = DefUse(body)
    return body._du


def root_place(body, place, depth=0):
    """Follow single-definition temporaries backwards through copies, moves, reborrows and
    deref-of-ref to the originating place. Returns a place dict (possibly the same)."""
    if depth > 12:
        return place
    l = place["l"]
    if 1 <= l <= body.arg_count:
        return place
    d = defuse(body).single_def(l)
    if d is None or d[0] != "stmt":
        return place
    rv = d[3]["rv"]
    base = None
    strip_deref = False
    if rv["k"] == "use" and rv["op"]["k"] in ("copy", "move"):
        base = rv["op"]["place"]
    elif rv["k"] in ("ref", "rawptr"):
        base = rv["place"]
        strip_deref = True
    elif rv["k"] == "cast" and rv["op"]["k"] in ("copy", "move") and ("Unsize" in rv["cast"] or "PtrToPtr" in rv["cast"] or "Pointer" in rv["cast"]):
        base = rv["op"]["place"]
    if base is None and rv["k"] == "aggregate" and rv.get("agg") == "tuple":
        # field i of a tuple built in place (`match (a, b) { .. }`): the i-th operand
        proj0 = list(place.get("p", []))
        if proj0 and proj0[0]["k"] == "field" and proj0[0]["i"] < len(rv["ops"]) and rv["ops"][proj0[0]["i"]].get("k") in ("copy", "move"):
            b0 = rv["ops"][proj0[0]["i"]]["place"]
            newp = {"l": b0["l"], "p": list(b0.get("p", [])) + proj0[1:]}
            if "ty" in place:
                newp["ty"] = place["ty"]
            return root_place(body, newp, depth + 1)
    if base is None:
        return place
    proj = list(place.get("p", []))
    if strip_deref:
        # place = (*tmp).rest  where tmp = &base  ==> base.rest
        if proj and proj[0]["k"] == "deref":
            proj = proj[1:]
        elif proj:
            return place
        else:
            # the reference itself: denote the referent
            pass
    newp = {"l": base["l"], "p": list(base.get("p", [])) + proj}
    if "ty" in place:
        newp["ty"] = place["ty"]
    elif "ty" in base and not proj:
        newp["ty"] = base["ty"]
    return root_place(body, newp, depth + 1)


def op_root(body, op):
    p = op_place(op)
    if p is None:
        return None
    return root_place(body, p)


def place_field_names(place):
    return [n for (_a, n) in place_fields(place)]


def place_is_field(place, adt_suffix, field):
    """True if some projection element is field `field` of ADT `adt_suffix`."""
    for e in place.get("p", []):
        if e["k"] == "field" and e.get("n") == field and adt_match(e.get("adt"), adt_suffix):
            return True
    return False


def place_ends_with_field(place, adt_suffix, field):
    ps = [e for e in place.get("p", []) if e["k"] != "deref"]
    if not ps:
        return False
    e = ps[-1]
    return e["k"] == "field" and e.get("n") == field and adt_match(e.get("adt"), adt_suffix)


# ------------------------------------------------------------------ call-site queries

def find_calls(prog, *suffixes, bodies=None):
    out = []
    for b in (bodies if bodies is not None else prog.bodies):
        for bi, t in b.calls():
            if callee_is(t, *suffixes):
                out.append((b, bi, t))
    return out


def calls_in(body, *suffixes):
    return [(bi, t) for bi, t in body.calls() if callee_is(t, *suffixes)]


def calls_on_field(prog, method_suffixes, adt, field, bodies=None):
    """Call sites whose first argument is (a reference to) field `adt.field`."""
    out = []
    for (b, bi, t) in find_calls(prog, *method_suffixes, bodies=bodies):
        if not t["args"]:
            continue
        r = op_root(b, t["args"][0])
        if r is not None and place_is_field(r, adt, field):
            out.append((b, bi, t))
    return out


# ------------------------------------------------------------------ A4: result-flow tracing

RESULT_OK = {"result": 0, "option": 1, "controlflow": 0}


def _ty_kind(ty):
    s = ty.s
    if ty.k == "bool":
        return "bool"
    if ty.k == "adt":
        p = ty.d["path"]
        if p.endswith("result::Result"):
            return "result"
        if p.endswith("option::Option"):
            return "option"
        if p.endswith("ops::ControlFlow"):
            return "controlflow"
    return None


class Outcome:
    """Edges on which a call's result was found to be success / failure."""

    def __init__(self):
        self.ok_edges = set()
        self.err_edges = set()
        self.unrecognised = []


def success_edges(body, bi, follow_rewrap=False):
    """A4: from the destination of the call in block bi (returning Result/Option/bool), follow the
    value to the SwitchInt(s) that test it; return Outcome. 'ok' means Ok / Some / true.
    A result that is re-wrapped (`match r { Ok(v) => Ok(v), Err(_) => Err(E) }`, the return slot of a spliced
    helper) is followed too: a local of Result/Option type all of whose possibly-successful definitions lie behind
    the success edges found so far is successful only if the original was; its success edges are added."""
    t = body.blocks[bi]["term"]
    dest = t["dest"]
    if dest.get("p"):
        out = Outcome()
        out.unrecognised.append("call destination is not a local")
        return out
    out = _success_edges_from(body, dest["l"])
    if not out.ok_edges or not follow_rewrap:
        return out
    from .region import dominated_by_edges
    du = defuse(body)
    done = {dest["l"]}
    for _round in range(3):
        grown = False
        for l, defs in du.defs.items():
            if l in done or l == 0 and False:
                continue
            k2 = _ty_kind(body.local_ty(l))
            if k2 not in ("result", "option"):
                continue
            good = 0
            ok_all = True
            for d in defs:
                if d[0] == "stmt":
                    rv = d[3]["rv"]
                    if rv["k"] == "aggregate" and rv.get("agg") == "adt" and rv.get("variant") in ("Err", "None"):
                        continue
                    if rv["k"] == "aggregate" and rv.get("agg") == "adt" and rv.get("variant") in ("Ok", "Some"):
                        if dominated_by_edges(body, out.ok_edges, d[1]):
                            good += 1
                            continue
                    ok_all = False
                    break
                else:
                    tt = d[2]
                    if callee_is(tt, "FromResidual>::from_residual", "from_residual"):
                        continue
                    ok_all = False
                    break
            if ok_all and good:
                done.add(l)
                sub = _success_edges_from(body, l)
                new = sub.ok_edges - out.ok_edges
                if new:
                    out.ok_edges |= new
                    grown = True
        if not grown:
            break
    return out


def _success_edges_from(body, start_local):
    cfg = body.cfg
    out = Outcome()
    dest = {"l": start_local}
    kind = _ty_kind(body.local_ty(dest["l"]))
    if kind is None:
        out.unrecognised.append("call does not return Result/Option/bool")
        return out
    # tracked: local -> (kind, ok_value) ; for bool ok_value in {0,1}; for enums the discriminant of success
    start_ok = 1 if kind == "bool" else RESULT_OK[kind]
    tracked = {dest["l"]: (kind, start_ok)}
    tuple_fields = {}
    discr_of = {}  # local holding discriminant -> ok discriminant value
    work = [dest["l"]]
    seen = set()
    while True:
        if not work:
            # components of in-place tuples read back after every producer was seen
            for b2 in cfg.reach:
                for s in body.blocks[b2]["stmts"]:
                    if s["k"] == "assign" and s["rv"]["k"] == "use" and not s["place"].get("p") and op_place(s["rv"]["op"]) is not None:
                        sp2 = op_place(s["rv"]["op"])
                        pj = sp2.get("p") or []
                        if len(pj) == 1 and pj[0]["k"] == "field" and (sp2["l"], pj[0]["i"]) in tuple_fields and s["place"]["l"] not in tracked:
                            tracked[s["place"]["l"]] = tuple_fields[(sp2["l"], pj[0]["i"])]
                            work.append(s["place"]["l"])
            if not work:
                break
        l = work.pop()
        if l in seen:
            continue
        seen.add(l)
        kind, okv = tracked[l]
        for b2 in cfg.reach:
            blk = body.blocks[b2]
            for s in blk["stmts"]:
                if s["k"] != "assign":
                    continue
                rv = s["rv"]
                dst = s["place"]
                if rv["k"] == "use" and op_local(rv["op"]) == l and not dst.get("p"):
                    tracked[dst["l"]] = (kind, okv)
                    work.append(dst["l"])
                elif rv["k"] == "aggregate" and rv.get("agg") == "tuple" and not dst.get("p") and any(op_local(o) == l and not (op_place(o) or {}).get("p") for o in rv["ops"]):
                    # `match (a, flag) { .. }`: the value travels as a component of a tuple built in place
                    for i2, o2 in enumerate(rv["ops"]):
                        if op_local(o2) == l and not (op_place(o2) or {}).get("p"):
                            tuple_fields[(dst["l"], i2)] = (kind, okv)
                elif rv["k"] == "use" and op_place(rv["op"]) is not None and not dst.get("p"):
                    sp2 = op_place(rv["op"])
                    pj = sp2.get("p") or []
                    if len(pj) == 1 and pj[0]["k"] == "field" and (sp2["l"], pj[0]["i"]) in tuple_fields and tuple_fields[(sp2["l"], pj[0]["i"])] == (kind, okv) and dst["l"] not in tracked:
                        tracked[dst["l"]] = (kind, okv)
                        work.append(dst["l"])
                elif rv["k"] == "discr" and not rv["place"].get("p") and rv["place"]["l"] == l and not dst.get("p"):
                    discr_of[dst["l"]] = okv
                elif rv["k"] == "unop" and rv["op"] == "Not" and op_local(rv["a"]) == l and kind == "bool" and not dst.get("p"):
                    tracked[dst["l"]] = ("bool", 1 - okv)
                    work.append(dst["l"])
                elif rv["k"] == "ref" and not rv["place"].get("p") and rv["place"]["l"] == l and not dst.get("p"):
                    # &result passed to is_ok/is_err/is_some/is_none
                    tracked[dst["l"]] = (kind, okv)
                    work.append(dst["l"])
            tm = blk["term"]
            if tm["k"] == "call" and tm["args"] and op_local(tm["args"][0]) == l and not tm["dest"].get("p"):
                d2 = tm["dest"]["l"]
                if callee_is(tm, "Try::branch", "ops::Try>::branch"):
                    # Continue(0) iff ok
                    tracked[d2] = ("controlflow", 0)
                    work.append(d2)
                elif callee_is(tm, "Result::map_err", "Result::map", "Option::map", "Option::ok_or", "Option::ok_or_else", "Result::ok", "Option::as_ref", "Result::as_ref", "Option::as_mut", "Option::copied", "Option::cloned"):
                    k2 = _ty_kind(body.local_ty(d2))
                    if k2 in RESULT_OK:
                        tracked[d2] = (k2, RESULT_OK[k2])
                        work.append(d2)
                elif callee_is(tm, "Result::is_ok", "Option::is_some"):
                    tracked[d2] = ("bool", 1)
                    work.append(d2)
                elif callee_is(tm, "Result::is_err", "Option::is_none"):
                    tracked[d2] = ("bool", 0)
                    work.append(d2)
            if tm["k"] == "switch":
                dl = op_local(tm["discr"])
                tf = None
                if dl is None and op_place(tm["discr"]) is not None:
                    # `switch (_t.1)` on a component of an in-place tuple
                    dp = op_place(tm["discr"])
                    pj = dp.get("p") or []
                    if len(pj) == 1 and pj[0]["k"] == "field":
                        tf = tuple_fields.get((dp["l"], pj[0]["i"]))
                if dl is None and tf is None:
                    continue
                if tf is not None:
                    if tf != (kind, okv) or kind != "bool":
                        continue
                    okd = okv
                elif dl in discr_of and dl not in tracked:
                    okd = discr_of[dl]
                elif dl == l and kind == "bool":
                    okd = okv
                else:
                    continue
                succs = cfg.succ.get(b2, [])
                nvals = len(tm["values"])
                for k, v in enumerate(tm["values"]):
                    e = ("e", b2, k)
                    if v == okd:
                        out.ok_edges.add(e)
                    else:
                        out.err_edges.add(e)
                # otherwise edge
                e = ("e", b2, nvals)
                if kind == "bool" or (dl is not None and dl in discr_of):
                    # otherwise covers all values not listed
                    if okd in tm["values"]:
                        # otherwise = some failure value (or unreachable)
                        tgt = tm["otherwise"]
                        if body.blocks[tgt]["term"]["k"] != "unreachable":
                            out.err_edges.add(e)
                    else:
                        # ok value falls into otherwise, provided all other values are listed
                        out.ok_edges.add(e)
    if not out.ok_edges and not out.err_edges:
        out.unrecognised.append("result of call is not tested by a recognised idiom")
    return out


def dominated_by_ok(body, bi_call, target, outcome=None):
    """True if block `target` is dominated by the success edges of the call at bi_call."""
    oc = outcome or success_edges(body, bi_call, follow_rewrap=True)
    if not oc.ok_edges:
        return False
    cfg = body.cfg
    if not cfg.dominates(bi_call, target):
        return False
    # all paths from the call to target pass through an ok edge  <=> removing ok edges, target is
    # unreachable from the call's successor
    reach = cfg.reachable_from([bi_call], avoid_edges=oc.ok_edges)
    return target not in reach or target == bi_call and False


# ------------------------------------------------------------------ returns

def result_return_sites(body):
    """Classify every definition of the return place _0 of a Result-returning body.
    Yields (kind, bi, info) with kind in ok / err / call / residual / move / other."""
    out = []
    for bi in body.cfg.reach:
        blk = body.blocks[bi]
        for si, s in enumerate(blk["stmts"]):
            if s["k"] == "assign" and s["place"]["l"] == 0 and not s["place"].get("p"):
                rv = s["rv"]
                if rv["k"] == "aggregate" and rv.get("agg") == "adt" and rv["adt"].endswith("result::Result"):
                    out.append(("ok" if rv["variant"] == "Ok" else "err", bi, s))
                elif rv["k"] == "use" and rv["op"]["k"] in ("move", "copy"):
                    out.append(("move", bi, s))
                else:
                    out.append(("other", bi, s))
        t = blk["term"]
        if t["k"] == "call" and t["dest"]["l"] == 0 and not t["dest"].get("p"):
            if callee_is(t, "FromResidual>::from_residual", "from_residual"):
                out.append(("residual", bi, t))
            else:
                out.append(("call", bi, t))
    return out


def propagates_error(body, bi_call):
    """Error discipline: does the failure of the Result-returning call in block bi_call leave the enclosing
    Result-returning function as an Err?  Accepted idioms: the call writes the return place directly (tail
    call); `?` (Try::branch -> from_residual); an explicit `Err(..)` / moved result on every path from the
    failure edges to the return.  Returns (ok, reason)."""
    t = body.blocks[bi_call]["term"]
    dest = t["dest"]
    if not dest.get("p") and dest["l"] == 0:
        return True, "tail call: the callee's result is the function's result"
    oc = success_edges(body, bi_call)
    if not oc.err_edges:
        return False, "the call's failure is never tested (%s)" % "; ".join(oc.unrecognised or ["no failure edge"])
    cfg = body.cfg
    targets = []
    for (_e, sb, k) in oc.err_edges:
        succs = cfg.succ.get(sb, [])
        if k < len(succs):
            targets.append(succs[k])
    reach = feasible_reach(body, targets)
    sites = [(k, bi) for (k, bi, _i) in result_return_sites(body) if bi in reach]
    bad = [(k, bi) for (k, bi) in sites if k not in ("err", "residual")]
    if not sites:
        return False, "no definition of the return value is reachable from the failure edges"
    if bad:
        return False, "after the failure a non-error result can still be returned (%s in bb%d)" % bad[0]
    return True, "every return reachable from the failure edges is an Err (%d site(s))" % len(sites)


def internal_sweeps(prog, body, container_pred, callee_did):
    """Internal-iteration form of a complete sweep: `container.iter_mut().for_each(f)` (or iter()/values_mut())
    where f is the callee itself (function item) or a closure whose every path calls it.  Returns the blocks of
    such for_each calls."""
    out = []
    for bi, t in body.calls():
        if not callee_is(t, "iter::Iterator::for_each", "Iterator>::for_each", "Iterator::for_each") or len(t["args"]) < 2:
            continue
        src = deep_root(body, t["args"][0])
        # the receiver is an iterator created from the container
        o = origin(body, t["args"][0])
        ok_src = False
        cur = t["args"][0]
        for _ in range(4):
            o = origin(body, cur)
            if o[0] == "call" and o[2]["args"]:
                r = deep_root(body, o[2]["args"][0])
                if r is not None and container_pred(r):
                    ok_src = True
                    break
                cur = o[2]["args"][0]
                continue
            break
        if not ok_src:
            continue
        f = t["args"][1]
        applies = False
        if f.get("k") == "const" and f.get("fn"):
            hits = [b for b in prog.bodies if b.path == f["fn"]]
            applies = len(hits) == 1 and hits[0].did == callee_did
        else:
            r = op_root(body, f)
            d = defuse(body).single_def(r["l"]) if r is not None else None
            if d and d[0] == "stmt" and d[3]["rv"].get("agg") == "closure":
                cb = prog.by_did.get(d[3]["rv"]["closure_did"])
                if cb is not None:
                    calls = [ci for ci, ct in cb.calls() if any(dd == callee_did for _k, dd in prog.cg.resolve(cb, ct))]
                    applies = bool(calls) and not any(x in cb.cfg.exits for x in cb.cfg.reachable_from([0], avoid_blocks=calls))
        if applies:
            out.append(bi)
    return out


INTERNAL_SWEEP_CALLS = ("iter::Iterator::for_each", "Iterator>::for_each", "Iterator::for_each")
SHORT_CIRCUIT_ADAPTERS = ("iter::Iterator::take_while", "iter::Iterator::take", "iter::Iterator::skip_while", "iter::Iterator::map_while",
                          "iter::Iterator::try_for_each", "iter::Iterator::any", "iter::Iterator::all", "iter::Iterator::find",
                          "iter::Iterator::position", "iter::Iterator::step_by", "iter::Iterator::skip", "iter::Iterator::nth")


def sweep_closures(prog, fn):
    """Closures of fn that are the body of an internal iteration (`iter.for_each(|x| ..)`) whose iterator chain has
    no short-circuiting adapter.  Returns list of (closure body, for_each block in fn or in the enclosing closure)."""
    out = []
    bodies = [fn] + prog.closures_of(fn)
    for b in bodies:
        for bi, t in b.calls():
            if not callee_is(t, *INTERNAL_SWEEP_CALLS) or len(t["args"]) < 2:
                continue
            # walk the adapter chain of the receiver
            cur = t["args"][0]
            short = False
            for _ in range(8):
                o = origin(b, cur)
                if o[0] == "call" and o[2]["args"]:
                    if callee_is(o[2], *SHORT_CIRCUIT_ADAPTERS):
                        short = True
                    cur = o[2]["args"][0]
                    continue
                break
            if short:
                continue
            r = op_root(b, t["args"][1])
            d = defuse(b).single_def(r["l"]) if r is not None else None
            if d and d[0] == "stmt" and d[3]["rv"].get("agg") == "closure":
                cb = prog.by_did.get(d[3]["rv"]["closure_did"])
                if cb is not None:
                    out.append((cb, b, bi))
    return out


ADAPTER_CALLS = ("iter::Iterator::filter", "iter::Iterator::filter_map", "iter::Iterator::map", "iter::Iterator::for_each",
                 "iter::Iterator::inspect", "iter::Iterator::flat_map")
CONSUMERS_COMPLETE = ("iter::Iterator::collect", "iter::Iterator::for_each", "iter::Iterator::count", "iter::Iterator::fold",
                      "iter::Iterator::sum", "iter::Extend::extend", "Extend>::extend", "iter::Iterator::last", "iter::Iterator::max",
                      "iter::Iterator::min", "iter::Iterator::max_by", "iter::Iterator::min_by", "iter::Iterator::max_by_key", "iter::Iterator::min_by_key")


def adapter_closures(prog, fn):
    """Closures of fn handed to an iterator adapter (filter / map / for_each ...).  For each: (closure body,
    adapter name, root place of the iterated container or None, True if the chain contains a short-circuiting
    adapter, True if the chain is consumed completely by collect/for_each/extend/fold...)."""
    out = []
    for b in [fn] + prog.closures_of(fn):
        for bi, t in b.calls():
            if not callee_is(t, *ADAPTER_CALLS) or len(t["args"]) < 2:
                continue
            r = op_root(b, t["args"][1])
            d = defuse(b).single_def(r["l"]) if r is not None else None
            if not (d and d[0] == "stmt" and d[3]["rv"].get("agg") == "closure"):
                continue
            cb = prog.by_did.get(d[3]["rv"]["closure_did"])
            if cb is None:
                continue
            # upstream: towards the container
            cur = t["args"][0]
            short = False
            src = None
            for _ in range(10):
                o = origin(b, cur)
                if o[0] == "call" and o[2]["args"]:
                    if callee_is(o[2], *SHORT_CIRCUIT_ADAPTERS):
                        short = True
                    rr = deep_root(b, o[2]["args"][0])
                    if rr is not None and [e for e in rr.get("p", []) if e["k"] == "field"]:
                        src = rr
                    cur = o[2]["args"][0]
                    continue
                break
            # downstream: the adapter's result is consumed by ...
            complete = callee_is(t, "iter::Iterator::for_each")
            curl = t["dest"]["l"]
            for _ in range(10):
                nxt = None
                for bj, tj in b.calls():
                    if tj["args"] and op_place(tj["args"][0]) is not None:
                        rr = root_place(b, op_place(tj["args"][0]))
                        if rr["l"] == curl and not rr.get("p"):
                            nxt = tj
                            break
                    if len(tj["args"]) > 1 and callee_is(tj, "iter::Extend::extend", "Extend>::extend") and op_place(tj["args"][1]) is not None:
                        rr = root_place(b, op_place(tj["args"][1]))
                        if rr["l"] == curl and not rr.get("p"):
                            nxt = tj
                            break
                if nxt is None:
                    break
                if callee_is(nxt, *SHORT_CIRCUIT_ADAPTERS):
                    short = True
                if callee_is(nxt, *CONSUMERS_COMPLETE):
                    complete = True
                    break
                curl = nxt["dest"]["l"]
            out.append((cb, (t.get("callee") or {}).get("name"), src, short, complete))
    return out


def sweep_stores(prog, fn, adt, field, const=None):
    """Stores to adt.field (optionally of a given constant) that happen once per element of a sweep: inside a loop
    of fn, or inside a closure run by for_each.  Returns list of (body, block)."""
    out = []
    def match(s):
        if s["k"] != "assign" or not place_is_field(s["place"], adt, field):
            return False
        if const is None:
            return True
        return s["rv"]["k"] == "use" and op_const(s["rv"]["op"]) == const
    for bi, si, s in fn.stmts():
        if match(s) and fn.cfg.in_loop(bi):
            out.append((fn, bi))
    for (cb, _b, _bi) in sweep_closures(prog, fn):
        for bi, si, s in cb.stmts():
            if match(s):
                out.append((cb, bi))
    return out


def option_some_edges(body, pred):
    """Edges on which an Option (or Result) place whose root satisfies pred is known to be Some (Ok): a match /
    if-let on its discriminant, `?` (Try::branch -> Continue), is_some()/is_ok(), the negative side of is_none()."""
    from .decision import enum_switch_edges
    out = set()
    for (edge, place, ty, val, is_oth) in enum_switch_edges(body):
        if is_oth or ty.k != "adt":
            continue
        pth = ty.d["path"]
        okv = 1 if pth.endswith("option::Option") else 0 if pth.endswith("result::Result") else None
        if okv is None or val != okv:
            continue
        if pred(root_place(body, place)):
            out.add(edge)
    for bi, t in body.calls():
        if not t["args"] or op_place(t["args"][0]) is None:
            continue
        pos = callee_is(t, "Try::branch", "ops::Try>::branch", "option::Option::is_some", "result::Result::is_ok")
        neg = callee_is(t, "option::Option::is_none", "result::Result::is_err")
        if not (pos or neg):
            continue
        r = root_place(body, op_place(t["args"][0]))
        dr = deep_root(body, t["args"][0])
        if not (pred(r) or (dr is not None and pred(dr))):
            continue
        oc = _success_edges_from(body, t["dest"]["l"]) if not t["dest"].get("p") else None
        if oc is None:
            continue
        out |= (oc.ok_edges if pos else oc.err_edges)
    return out


def deep_root_through_try(body, op_or_place, depth=0):
    """deep_root that also looks through `x?`: the payload of Try::branch(x) comes from x."""
    r = deep_root(body, op_or_place)
    if r is None or depth > 6:
        return r
    d = defuse(body).single_def(r["l"]) if not (1 <= r["l"] <= body.arg_count) else None
    if d and d[0] == "call" and callee_is(d[2], "Try::branch", "ops::Try>::branch") and d[2]["args"] and op_place(d[2]["args"][0]) is not None:
        return deep_root_through_try(body, d[2]["args"][0], depth + 1)
    return r


_VARIANT_DISCR = {"Ok": 0, "Err": 1, "None": 0, "Some": 1, "Continue": 0, "Break": 1}


def feasible_reach(body, starts, avoid_blocks=(), avoid_edges=(), limit=20000):
    """Blocks reachable from `starts` when the variant of Result/Option/ControlFlow locals is tracked along the
    path: `_r = Err(..)` / `from_residual` / `Ok(..)` set it, moves carry it, `Try::branch` maps it, and a switch on
    the discriminant of a local whose variant is known follows only the matching edge.  This removes the
    infeasible "helper returned Err, caller's `?` continues" paths that splicing a Result-returning helper creates.
    Falls back to plain reachability when the state space exceeds `limit` (a superset, hence still sound)."""
    cfg = body.cfg
    du = defuse(body)
    avoid_blocks = set(avoid_blocks)
    avoid_edges = set(avoid_edges)

    def step_block(bi, facts):
        f = dict(facts)
        for s in body.blocks[bi]["stmts"]:
            if s["k"] != "assign":
                continue
            dst = s["place"]
            rv = s["rv"]
            if rv["k"] in ("ref", "rawptr") and rv.get("mut"):
                f.pop(rv["place"]["l"], None)
            if dst.get("p"):
                f.pop(dst["l"], None)
                continue
            v = None
            if rv["k"] == "aggregate" and rv.get("agg") == "adt" and rv.get("variant") in _VARIANT_DISCR:
                v = rv["variant"]
            elif rv["k"] == "use" and op_local(rv["op"]) is not None:
                v = f.get(op_local(rv["op"]))
            f.pop(dst["l"], None)
            if v is not None:
                f[dst["l"]] = v
        return f

    seen = set()
    out = set()
    work = [(b, frozenset()) for b in starts]
    while work:
        bi, facts = work.pop()
        if bi in avoid_blocks or bi not in cfg.reach:
            continue
        key = (bi, facts)
        if key in seen:
            continue
        seen.add(key)
        if len(seen) > limit:
            return cfg.reachable_from(list(starts), avoid_blocks=avoid_blocks, avoid_edges=avoid_edges)
        out.add(bi)
        f = step_block(bi, facts)
        t = body.blocks[bi]["term"]
        succs = cfg.succ.get(bi, [])
        allowed = list(range(len(succs)))
        if t["k"] == "call" and not t["dest"].get("p"):
            d = t["dest"]["l"]
            v = None
            if callee_is(t, "FromResidual>::from_residual", "from_residual"):
                k = _ty_kind(body.local_ty(d))
                v = "Err" if k == "result" else "None" if k == "option" else None
            elif callee_is(t, "Try::branch", "ops::Try>::branch") and t["args"] and op_local(t["args"][0]) is not None:
                av = f.get(op_local(t["args"][0]))
                v = "Continue" if av in ("Ok", "Some") else "Break" if av in ("Err", "None") else None
            f.pop(d, None)
            if v is not None:
                f[d] = v
        elif t["k"] == "switch":
            dl = op_local(t["discr"])
            dd = du.single_def(dl) if dl is not None else None
            if dd and dd[0] == "stmt" and dd[3]["rv"]["k"] == "discr" and not dd[3]["rv"]["place"].get("p"):
                v = f.get(dd[3]["rv"]["place"]["l"])
                if v is not None:
                    want = _VARIANT_DISCR[v]
                    if want in t["values"]:
                        allowed = [t["values"].index(want)]
                    else:
                        allowed = [len(t["values"])]
        nf = frozenset(f.items())
        for k in allowed:
            if k < len(succs) and ("e", bi, k) not in avoid_edges:
                work.append((succs[k], nf))
    return out


# ------------------------------------------------------------------ A5 gate functions

def gate_functions(prog, is_gate_call, extra_roots=(), dead_edges_of=None):
    """Fixpoint: F is a gate function if every Ok(..) it can return is dominated by the success
    edge of a gate call (a call satisfying is_gate_call, or a call to a gate function), or is the
    pass-through result of a gate function. Returns dict did -> explanation."""
    gates = {}
    changed = True
    cand = [b for b in prog.bodies if b.kind != "closure" and _ty_kind(b.local_ty(0)) == "result"]
    while changed:
        changed = False
        for b in cand:
            if b.did in gates:
                continue
            gcalls = []
            for bi, t in b.calls():
                if is_gate_call(t):
                    gcalls.append(bi)
                else:
                    for kind, d in prog.cg.resolve(b, t):
                        if d in gates:
                            gcalls.append(bi)
                            break
            if not gcalls:
                continue
            ocs = {bi: success_edges(b, bi) for bi in gcalls}
            ok = True
            n_ok_sites = 0
            dead = dead_edges_of(b) if dead_edges_of else set()
            live = b.cfg.reachable_from([0], avoid_edges=dead) if dead else None
            for kind, bi, info in result_return_sites(b):
                if kind in ("err", "residual"):
                    continue
                if live is not None and bi not in live:
                    continue
                if kind == "call" and bi in gcalls:
                    n_ok_sites += 1
                    continue
                if kind == "move":
                    # `let r = gate(..); ...; r` : pass-through of a gate call's result
                    src = op_local(info["rv"]["op"])
                    d = defuse(b).single_def(src) if src is not None else None
                    if d is not None and d[0] == "call" and d[1] in gcalls:
                        n_ok_sites += 1
                        continue
                if kind == "ok":
                    n_ok_sites += 1
                    if any(dominated_by_ok(b, g, bi, ocs[g]) for g in gcalls if ocs[g].ok_edges):
                        continue
                ok = False
                break
            if ok and n_ok_sites:
                gates[b.did] = "all %d Ok exits of %s are behind the gate" % (n_ok_sites, b.path)
                changed = True
    return gates


# ------------------------------------------------------------------ A7 writes / constructions

def field_writes(prog, adt, field, bodies=None):
    """All sites that store to `adt.field` or take `&mut` of it (or of a sub-place).
    Yields (body, bi, kind, stmt_or_term) with kind in assign / mutborrow."""
    out = []
    for b in (bodies if bodies is not None else prog.bodies):
        for bi, si, s in b.stmts():
            if s["k"] == "assign":
                if place_is_field(s["place"], adt, field):
                    out.append((b, bi, "assign", s))
                rv = s["rv"]
                if rv["k"] in ("ref", "rawptr") and rv.get("mut") and place_is_field(rv["place"], adt, field):
                    out.append((b, bi, "mutborrow", s))
            elif s["k"] == "set_discr" and place_is_field(s["place"], adt, field):
                out.append((b, bi, "assign", s))
        for bi, t in b.calls():
            if place_is_field(t["dest"], adt, field):
                out.append((b, bi, "assign", t))
    return out


def aggregates(prog, adt, variant=None, bodies=None):
    """Construction sites of an ADT (variant). Yields (body, bi, stmt)."""
    out = []
    for b in (bodies if bodies is not None else prog.bodies):
        for bi, si, s in b.stmts():
            if s["k"] == "assign" and s["rv"]["k"] == "aggregate" and s["rv"].get("agg") == "adt":
                rv = s["rv"]
                if adt_match(rv["adt"], adt) and (variant is None or rv["variant"] == variant):
                    out.append((b, bi, s))
    return out


# ------------------------------------------------------------------ A11 simple may-flow

def forward_taint(body, seed_locals=(), seed_place_pred=None, through_calls=True, mut_args=True):
    """Forward may-flow over locals (flow-insensitive, intra-procedural). A local is tainted if it is
    assigned from an rvalue mentioning a tainted local or a seeded place; call results and &mut
    arguments are tainted by any tainted argument. Returns set of tainted locals."""
    tainted = set(seed_locals)

    def place_tainted(p):
        if p["l"] in tainted:
            return True
        for e in p.get("p", []):
            if e["k"] == "index" and e["l"] in tainted:
                return True
        if seed_place_pred and seed_place_pred(p):
            return True
        return False

    def op_tainted(op):
        p = op_place(op)
        return p is not None and place_tainted(p)

    def rv_tainted(rv):
        k = rv["k"]
        if k in ("use", "cast", "repeat"):
            return op_tainted(rv["op"])
        if k in ("ref", "rawptr", "discr"):
            return place_tainted(rv["place"])
        if k == "binop":
            return op_tainted(rv["a"]) or op_tainted(rv["b"])
        if k == "unop":
            return op_tainted(rv["a"])
        if k == "aggregate":
            return any(op_tainted(o) for o in rv["ops"])
        return False

    changed = True
    while changed:
        changed = False
        for bi in body.cfg.reach:
            blk = body.blocks[bi]
            for s in blk["stmts"]:
                if s["k"] == "assign" and rv_tainted(s["rv"]):
                    l = s["place"]["l"]
                    if l not in tainted:
                        tainted.add(l)
                        changed = True
            t = blk["term"]
            if t["k"] == "call" and through_calls:
                if any(op_tainted(a) for a in t["args"]):
                    l = t["dest"]["l"]
                    if l not in tainted:
                        tainted.add(l)
                        changed = True
                    # &mut arguments: taint the referent's root local
                    for a in (t["args"] if mut_args else []):
                        p = op_place(a)
                        if p is None:
                            continue
                        ty = body.place_ty(p)
                        if ty.k == "ref" and ty.d.get("mut"):
                            r = root_place(body, p)
                            if mut_args == "locals" and 1 <= r["l"] <= body.arg_count:
                                continue
                            for l2 in (p["l"], r["l"]):
                                if l2 not in tainted:
                                    tainted.add(l2)
                                    changed = True
    return tainted


def blocks_storing_through(body, root_local_pred=None, place_pred=None):
    """Blocks containing a store (assignment to a projected place, &mut borrow passed to a call is
    handled by callers) whose root place satisfies the predicate."""
    out = []
    for bi, si, s in body.stmts():
        if s["k"] != "assign":
            continue
        pl = s["place"]
        if not pl.get("p"):
            continue
        r = root_place(body, pl)
        if place_pred(r):
            out.append((bi, s))
    return out


# ------------------------------------------------------------------ origins

def origin(body, op_or_place, depth=0):
    """Trace an operand/place back through copies, moves, reborrows, derefs of temporaries and
    integer casts to where its value comes from. Returns one of
      ('call', bi, term)      result of a call
      ('place', place)        a (root) place: argument, field of argument, multi-def local
      ('const', op)           a constant operand
      ('rvalue', bi, stmt)    some other rvalue (aggregate, binop, ...)"""
    if "k" in op_or_place and op_or_place["k"] == "const":
        return ("const", op_or_place)
    place = op_or_place["place"] if op_or_place.get("k") in ("copy", "move") else op_or_place
    r = root_place(body, place)
    l = r["l"]
    if 1 <= l <= body.arg_count or depth > 12:
        return ("place", r)
    d = defuse(body).single_def(l)
    if d is None:
        return ("place", r)
    if d[0] == "call":
        return ("call", d[1], d[2])
    rv = d[3]["rv"]
    if rv["k"] == "use" and rv["op"]["k"] == "const":
        return ("const", rv["op"])
    if rv["k"] == "cast" and rv["cast"].startswith("IntToInt"):
        return origin(body, rv["op"], depth + 1)
    return ("rvalue", d[1], d[3])


def origin_call(body, op, *suffixes):
    """If the operand originates from a call to one of the suffixes, return (bi, term)."""
    o = origin(body, op)
    if o[0] == "call" and (not suffixes or callee_is(o[2], *suffixes)):
        return o[1], o[2]
    return None


ALIAS_CALLS = ("ops::DerefMut::deref_mut", "ops::Deref::deref", "ops::Index::index", "ops::IndexMut::index_mut",
               "convert::AsRef::as_ref", "convert::AsMut::as_mut", "borrow::Borrow::borrow", "borrow::BorrowMut::borrow_mut",
               "DerefMut>::deref_mut", "Deref>::deref", "IndexMut<I>>::index_mut", "Index<I>>::index",
               "IndexMut>::index_mut", "Index>::index", "AsMut>::as_mut", "AsRef>::as_ref", "as_mut_slice", "as_slice",
               "as_bytes", "as_mut", "as_ref", "borrow", "borrow_mut", "Cursor::get_ref", "Cursor::get_mut",
               "Cursor<T>::get_ref", "Cursor<T>::get_mut", "Cursor::into_inner", "Cursor<T>::into_inner",
               "util::MsgBuffer::message", "util::MsgBuffer::message_mut", "util::MsgBuffer::buffer")


def deep_root(body, op_or_place, depth=0):
    """root_place extended through calls that merely hand out a (sub-)reference of their first
    argument (deref, index, as_ref, ...): returns the place that is aliased."""
    place = op_or_place["place"] if op_or_place.get("k") in ("copy", "move") else op_or_place
    if op_or_place.get("k") == "const":
        return None
    r = root_place(body, place)
    if depth > 10:
        return r
    l = r["l"]
    if 1 <= l <= body.arg_count:
        return r
    d = defuse(body).single_def(l)
    if d is not None and d[0] == "call" and d[2]["args"] and callee_is(d[2], *ALIAS_CALLS):
        inner = deep_root(body, d[2]["args"][0], depth + 1)
        if inner is not None:
            return inner
    return r


# ------------------------------------------------------------------ loops

NEXT_CALLS = ("Iterator>::next", "iter::Iterator::next", "DoubleEndedIterator>::next_back", "iter::DoubleEndedIterator::next_back")


class LoopInfo:
    def __init__(self, body, header, blocks):
        self.body = body
        self.header = header
        self.blocks = blocks
        self.next_calls = []      # blocks calling Iterator::next inside the loop (not nested deeper)
        self.exhaust_exits = []   # (src, dst) edges taken when next() returned None
        self.other_exits = []     # any other edge leaving the loop
        self.iter_local = None


def loops_of(body):
    """Natural loops with classification of their exits (A3)."""
    cfg = body.cfg
    out = []
    du = defuse(body)
    for header, blocks in cfg.loops().items():
        li = LoopInfo(body, header, blocks)
        none_edges = set()
        for bi in blocks:
            t = body.blocks[bi]["term"]
            if t["k"] == "call" and callee_is(t, *NEXT_CALLS) and not t["dest"].get("p"):
                li.next_calls.append(bi)
                oc = success_edges(body, bi)
                for (_e, src, k) in oc.err_edges:
                    none_edges.add((src, cfg.succ[src][k]))
                if li.iter_local is None and t["args"]:
                    r = root_place(body, op_place(t["args"][0])) if op_place(t["args"][0]) else None
                    if r is not None:
                        li.iter_local = r["l"]
        for (src, dst) in cfg.loop_exits(header):
            if (src, dst) in none_edges:
                li.exhaust_exits.append((src, dst))
            else:
                # exits into diverging blocks (panics) are not early exits of the sweep
                reach = cfg.reachable_from([dst])
                if not any(b in cfg.exits for b in reach):
                    continue
                li.other_exits.append((src, dst))
        out.append(li)
    return out


def iter_source(body, li):
    """Place the loop's iterator was built from (deep root through iter()/into_iter()/keys()/...)."""
    if li.iter_local is None:
        return None
    l = li.iter_local
    seen = 0
    cur = {"l": l}
    while seen < 12:
        seen += 1
        d = defuse(body).single_def(cur["l"])
        if d is None:
            return cur
        if d[0] == "call":
            if d[2]["args"]:
                p = op_place(d[2]["args"][0])
                if p is None:
                    return cur
                cur = root_place(body, p)
                if cur.get("p"):
                    return cur
                continue
            return cur
        rv = d[3]["rv"]
        if rv["k"] == "use" and op_place(rv["op"]) is not None:
            cur = root_place(body, op_place(rv["op"]))
            if cur.get("p"):
                return cur
            continue
        if rv["k"] in ("ref",):
            cur = root_place(body, rv["place"])
            if cur.get("p"):
                return cur
            continue
        return cur
    return cur
