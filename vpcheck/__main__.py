import os
import sys
import json


def main(argv):
    if not argv:
        print("usage: check <property id> [quick|thorough] | --replay <report> | --list")
        return 2
    if argv[0] == "--replay":
        with open(argv[1]) as f:
            rep = json.load(f)
        print("property=%s key=%s" % (rep["property"], rep["key"]))
        for inst in rep["instances"]:
            print("  [%s] %s @ %s\n     %s" % (inst["config"], inst["key"], inst.get("site"), inst["what"]))
            if inst.get("detail"):
                print("     " + str(inst["detail"]).replace("\n", "\n     "))
        # re-run the property so that the replay decides against the current tree
        from .registry import run
        return run(rep["property"], rep.get("tier", "quick"))
    from .registry import run, PROPERTIES
    if argv[0] == "--list":
        for p in sorted(PROPERTIES):
            print(p, len(PROPERTIES[p]["rules"]))
        return 0
    prop = argv[0]
    tier = argv[1] if len(argv) > 1 else os.environ.get("VERIF_TIER", "quick")
    return run(prop, tier)


if __name__ == "__main__":
    sys.exit(main(sys.argv[1:]))
