"""Rename normalisation (anchor robustness).

The rules name functions, struct fields and constants of /repo.  A pure rename of one of those is a
behaviour-preserving edit and must not raise an alarm.  `tables/name_index.json` records, for the reviewed
tree, every function (parent item, kind, parameter types, return type), every struct / variant field (position,
type) and every constant (type, value).  When the fact base of the tree under analysis lacks a recorded name
and contains exactly one *new* name with the same parent and the same fingerprint, the new name is treated as
an alias of the recorded one: the fact base is rewritten to the recorded name before any rule runs, and a note
is attached to the evidence.  A new function that merely has the same signature as a deleted one is then
checked against the deleted one's obligations and fails them (no silent pass); a rename that also changes the
signature is not recognised and the anchor fails closed, as before."""
import json
import os

from .build import VERIF

INDEX = os.path.join(VERIF, "tables", "name_index.json")
PATH_KEYS = ("path", "full", "resolved", "fn", "parent_path")


def fn_fingerprint(b, types):
    args = [types[b["locals"][i]["ty"]]["s"] for i in range(1, b["arg_count"] + 1)]
    ret = types[b["locals"][0]["ty"]]["s"]
    return [b.get("parent_path", ""), b.get("kind", ""), args, ret, b.get("impl_trait") is not None]


def build_index(raw):
    types = raw["types"]
    fns = {}
    for b in raw["bodies"]:
        if b.get("kind") in ("closure", "promoted", None):
            continue
        fns[b["path"]] = fn_fingerprint(b, types)
    fields = {}
    for a in raw["adts"]:
        fields[a["path"]] = [[v["name"], [[f["name"], types[f["ty"]]["s"]] for f in v["fields"]]] for v in a["variants"]]
    consts = {}
    for c in raw["consts"]:
        consts[c["path"]] = [types[c["ty"]]["s"] if "ty" in c else "", c.get("value")]
    return {"functions": fns, "fields": fields, "consts": consts}


def load_index():
    if not os.path.exists(INDEX):
        return None
    with open(INDEX) as f:
        return json.load(f)


def _parent(path):
    return path.rsplit("::", 1)[0] if "::" in path else ""


def detect(raw, index):
    """Returns (fn_renames {new: old}, field_renames {(adt, new): old}, const_renames {new: old})."""
    cur = build_index(raw)
    config = raw.get("config")
    fn_ren, field_ren, const_ren = {}, {}, {}
    known = index["functions"]
    missing = [p for p in known if p not in cur["functions"]]
    new = [p for p in cur["functions"] if p not in known]
    claimed = {}
    for m in missing:
        fp = known[m]
        cands = [n for n in new if cur["functions"][n] == fp and _parent(n) == _parent(m)]
        if len(cands) == 1:
            claimed.setdefault(cands[0], []).append(m)
    for n, ms in claimed.items():
        if len(ms) == 1:
            fn_ren[n] = ms[0]
    for adt, variants in index["fields"].items():
        cv = cur["fields"].get(adt)
        if cv is None or len(cv) != len(variants):
            continue
        for (vn, fs), (cvn, cfs) in zip(variants, cv):
            if vn != cvn or len(fs) != len(cfs):
                continue
            old_names = {f[0] for f in fs}
            new_names = {f[0] for f in cfs}
            for (on, oty), (nn, nty) in zip(fs, cfs):
                if on != nn and oty == nty and on not in new_names and nn not in old_names:
                    field_ren[(adt, nn)] = on
    kc = index["consts"]
    cmissing = [p for p in kc if p not in cur["consts"]]
    cnew = [p for p in cur["consts"] if p not in kc]
    cclaimed = {}
    for m in cmissing:
        cands = [n for n in cnew if cur["consts"][n] == kc[m] and _parent(n) == _parent(m)]
        if len(cands) == 1:
            cclaimed.setdefault(cands[0], []).append(m)
    for n, ms in cclaimed.items():
        if len(ms) == 1:
            const_ren[n] = ms[0]
    return fn_ren, field_ren, const_ren


def _rewrite_path(v, fn_ren):
    for n, o in fn_ren.items():
        if v == n:
            return o
        if v.startswith(n + "::"):
            return o + v[len(n):]
    return v


def _walk(x, fn_ren, field_ren):
    if isinstance(x, dict):
        if fn_ren:
            renamed_here = False
            for k in PATH_KEYS:
                v = x.get(k)
                if isinstance(v, str):
                    nv = _rewrite_path(v, fn_ren)
                    if nv != v:
                        if k in ("path", "resolved") and v in fn_ren:
                            renamed_here = True
                        x[k] = nv
            if renamed_here and isinstance(x.get("name"), str) and "path" in x:
                x["name"] = x["path"].rsplit("::", 1)[-1]
        if field_ren and x.get("k") == "field" and "adt" in x:
            o = field_ren.get((x["adt"], x.get("n")))
            if o is not None:
                x["n"] = o
        if field_ren and x.get("agg") == "adt" and isinstance(x.get("fields"), list):
            x["fields"] = [field_ren.get((x.get("adt"), f), f) for f in x["fields"]]
        if fn_ren and x.get("agg") == "closure" and isinstance(x.get("closure"), str):
            x["closure"] = _rewrite_path(x["closure"], fn_ren)
        for v in x.values():
            if isinstance(v, (dict, list)):
                _walk(v, fn_ren, field_ren)
    elif isinstance(x, list):
        for v in x:
            if isinstance(v, (dict, list)):
                _walk(v, fn_ren, field_ren)


def normalise(raw):
    """Rewrite renamed functions / fields / constants of the fact base back to their recorded names.
    Returns a list of human-readable notes."""
    index = load_index()
    if index is None:
        return []
    fn_ren, field_ren, const_ren = detect(raw, index)
    notes = []
    if fn_ren or field_ren:
        _walk(raw["bodies"], fn_ren, field_ren)
        _walk(raw["impls"], fn_ren, {})
    for (adt, nn), on in field_ren.items():
        for a in raw["adts"]:
            if a["path"] == adt:
                for v in a["variants"]:
                    for f in v["fields"]:
                        if f["name"] == nn:
                            f["name"] = on
        notes.append("field %s.%s is treated as the recorded field `%s` (renamed, same position and type)" % (adt, nn, on))
    for n, o in fn_ren.items():
        notes.append("function %s is treated as the recorded function `%s` (renamed, same parent and signature)" % (n, o))
    for n, o in const_ren.items():
        for c in raw["consts"]:
            if c["path"] == n:
                c["path"] = o
        notes.append("constant %s is treated as the recorded constant `%s` (renamed, same type and value)" % (n, o))
    return notes
