"""Helper inlining (anchor robustness, second half of the normalisation started in renames.py).

Extracting a block of an anchored function into a new private helper is the most common behaviour-preserving
edit; the rules, however, speak about the anchored function ("both arms of handle_init derive the key", "the only
constructor sites are ...").  A function that is *not* in the reviewed name index (tables/name_index.json) is
therefore spliced back into every direct call site before any rule runs: its blocks are copied into the caller
(locals, promoted constants and closure bodies renumbered), arguments become assignments, `return` becomes an
assignment of the call's destination followed by a jump to the call's continuation.  This is ordinary inlining -
the analysed program is still exactly the program in /repo, only with fewer function boundaries - so every path,
dominator and interval argument made on the result holds for the real code.  When every reference to the helper
is gone it is dropped from the fact base.  Not inlined: trait-impl methods, recursive functions, functions used
as values (passed to an iterator adapter); the rules see those as they are."""
import copy

from .renames import load_index

MAX_ROUNDS = 6
MAX_BLOCKS = 4000


def _walk_shift(x, loff, boff, poff, clos_map):
    """Shift local indices, promoted indices and closure references inside statements / operands."""
    if isinstance(x, dict):
        if isinstance(x.get("l"), int):
            x["l"] += loff
        if x.get("k") == "const" and isinstance(x.get("promoted"), int):
            x["promoted"] += poff
        if x.get("agg") == "closure" and x.get("closure_did") in clos_map:
            nd, npth = clos_map[x["closure_did"]]
            x["closure_did"] = nd
            x["closure"] = npth
        for v in x.values():
            if isinstance(v, (dict, list)):
                _walk_shift(v, loff, boff, poff, clos_map)
    elif isinstance(x, list):
        for v in x:
            if isinstance(v, (dict, list)):
                _walk_shift(v, loff, boff, poff, clos_map)


def _shift_term_targets(t, boff):
    for k in ("target", "unwind", "otherwise"):
        if isinstance(t.get(k), int) and not isinstance(t.get(k), bool):
            t[k] += boff
    if isinstance(t.get("targets"), list):
        t["targets"] = [x + boff for x in t["targets"]]


def _callee_did(t):
    c = t.get("callee") or {}
    return c.get("resolved_did") or c.get("did")


def _refs_to(raw, did, path):
    """Number of remaining references (calls, fn-item constants) to a function."""
    n = 0

    def walk(x):
        nonlocal n
        if isinstance(x, dict):
            if x.get("k") == "call" and _callee_did(x) == did:
                n += 1
            if x.get("k") == "const" and x.get("fn") == path:
                n += 1
            for v in x.values():
                if isinstance(v, (dict, list)):
                    walk(v)
        elif isinstance(x, list):
            for v in x:
                if isinstance(v, (dict, list)):
                    walk(v)
    for b in raw["bodies"]:
        walk(b["blocks"])
        walk(b.get("promoted", []))
    return n


def _fn_value_uses(raw, path):
    n = 0

    def walk(x):
        nonlocal n
        if isinstance(x, dict):
            if x.get("k") == "const" and x.get("fn") == path:
                n += 1
            for k, v in x.items():
                if k == "func":
                    continue  # the callee operand of a direct call is not a value use
                if isinstance(v, (dict, list)):
                    walk(v)
        elif isinstance(x, list):
            for v in x:
                if isinstance(v, (dict, list)):
                    walk(v)
    for b in raw["bodies"]:
        walk(b["blocks"])
    return n


def _inline_one(raw, caller, bi, callee, serial):
    blocks = caller["blocks"]
    t = blocks[bi]["term"]
    loff = len(caller["locals"])
    boff = len(blocks)
    poff = len(caller.get("promoted", []))
    for l in callee["locals"]:
        nl = dict(l)
        nl["inlined_from"] = callee["path"]
        caller["locals"].append(nl)
    if callee.get("promoted"):
        caller.setdefault("promoted", []).extend(copy.deepcopy(callee["promoted"]))
    # closures defined inside the callee get a private copy that belongs to the caller
    clos_map = {}
    pre = callee["path"] + "::{closure#"
    for q in list(raw["bodies"]):
        if q.get("kind") == "closure" and q["path"].startswith(pre):
            nq = copy.deepcopy(q)
            nq["did"] = "%s@%d" % (q["did"], serial)
            nq["path"] = caller["path"] + "::{closure#i%d_" % serial + q["path"][len(pre):]
            nq["parent_path"] = caller["path"]
            clos_map[q["did"]] = (nq["did"], nq["path"])
            raw["bodies"].append(nq)
    new = copy.deepcopy(callee["blocks"])
    call_span = t["span"]
    cleanup_call = bool(blocks[bi].get("cleanup"))
    for nb in new:
        _walk_shift(nb["stmts"], loff, boff, poff, clos_map)
        tt = nb["term"]
        _shift_term_targets(tt, boff)
        for k in ("discr", "args", "dest", "place", "cond", "func"):
            if k in tt and isinstance(tt[k], (dict, list)):
                _walk_shift(tt[k], loff, boff, poff, clos_map)
        if cleanup_call:
            nb["cleanup"] = True
        if tt["k"] == "return":
            nb["stmts"].append({"k": "assign", "place": copy.deepcopy(t["dest"]),
                                "rv": {"k": "use", "op": {"k": "move", "place": {"l": loff}}}, "span": call_span})
            if t.get("target") is not None:
                nb["term"] = {"k": "goto", "target": t["target"], "span": tt["span"]}
            else:
                nb["term"] = {"k": "unreachable", "span": tt["span"]}
        elif tt["k"] == "resume":
            if isinstance(t.get("unwind"), int) and not isinstance(t.get("unwind"), bool):
                nb["term"] = {"k": "goto", "target": t["unwind"], "span": tt["span"]}
    # arguments
    for i, a in enumerate(t["args"]):
        blocks[bi]["stmts"].append({"k": "assign", "place": {"l": loff + 1 + i}, "rv": {"k": "use", "op": copy.deepcopy(a)}, "span": call_span})
    blocks[bi]["term"] = {"k": "goto", "target": boff, "span": call_span}
    blocks.extend(new)


def inline_new_helpers(raw):
    index = load_index()
    if index is None:
        return []
    known = index["functions"]
    by_did = {b["did"]: b for b in raw["bodies"]}
    new = {}
    for b in raw["bodies"]:
        if b.get("kind") in ("fn", "assoc_fn") and b["path"] not in known and b.get("impl_trait") is None:
            if b.get("name") == "main":
                continue
            new[b["did"]] = b
    if not new:
        return []
    notes = []
    # functions used as values cannot be spliced
    for did in list(new):
        if _fn_value_uses(raw, new[did]["path"]):
            notes.append("new function %s is used as a value; not inlined" % new[did]["path"])
            del new[did]
    counts = {}
    serial = 0
    for _round in range(MAX_ROUNDS):
        # leaf-first: a helper is spliced only once it contains no call to another helper
        def calls_new(b):
            return any(bl["term"]["k"] == "call" and _callee_did(bl["term"]) in new for bl in b["blocks"])
        leaves = {d for d, b in new.items() if not calls_new(b)}
        if not leaves:
            break
        progress = False
        for caller in list(raw["bodies"]):
            bi = 0
            while bi < len(caller["blocks"]):
                t = caller["blocks"][bi]["term"]
                if t["k"] == "call":
                    d = _callee_did(t)
                    if d in leaves and d != caller["did"] and len(caller["blocks"]) < MAX_BLOCKS:
                        serial += 1
                        _inline_one(raw, caller, bi, new[d], serial)
                        counts[d] = counts.get(d, 0) + 1
                        progress = True
                bi += 1
        if not progress:
            break
    removed = set()
    for d, b in new.items():
        if counts.get(d) and _refs_to(raw, d, b["path"]) == 0:
            removed.add(d)
            notes.append("function %s (not in the reviewed tree) was inlined into its %d call site(s) and dropped" % (b["path"], counts[d]))
        elif counts.get(d):
            notes.append("function %s (not in the reviewed tree) was inlined into %d call site(s); other references remain" % (b["path"], counts[d]))
    if removed:
        gone_paths = {new[d]["path"] for d in removed}
        raw["bodies"] = [b for b in raw["bodies"] if b["did"] not in removed and
                         not (b.get("kind") == "closure" and any(b["path"].startswith(p + "::{closure#") for p in gone_paths))]
        for im in raw["impls"]:
            im["methods"] = [m for m in im["methods"] if m["did"] not in removed]
    return notes
