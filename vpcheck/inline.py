"""Helper inlining (anchor robustness, second half of the normalisation started in renames.py).

Extracting a block of an anchored function into a new private helper is the most common behaviour-preserving
edit; the rules, however, speak about the anchored function ("both arms of handle_init derive the key", "the only
constructor sites are ...").  A function that is *not* in the reviewed name index (tables/name_index.json) is
therefore spliced back into every direct call site before any rule runs: its blocks are copied into the caller
(locals, promoted constants and closure bodies renumbered), arguments become assignments, `return` becomes an
assignment of the call's destination followed by a jump to the call's continuation.  This is ordinary inlining -
the analysed program is still exactly the program in /repo, only with fewer function boundaries - so every path,
dominator and interval argument made on the result holds for the real code.  When every reference to the helper
is gone it is dropped from the fact base.  Not inlined: trait-impl methods, recursive functions, functions used
as values (passed to an iterator adapter); the rules see those as they are."""
import copy

from .renames import load_index

MAX_ROUNDS = 6
MAX_BLOCKS = 4000


def _walk_shift(x, loff, boff, poff, clos_map):
    """Shift local indices, promoted indices and closure references inside statements / operands."""
    if isinstance(x, dict):
        if isinstance(x.get("l"), int):
            x["l"] += loff
        if x.get("k") == "const" and isinstance(x.get("promoted"), int):
            x["promoted"] += poff
        if x.get("agg") == "closure" and x.get("closure_did") in clos_map:
            nd, npth = clos_map[x["closure_did"]]
            x["closure_did"] = nd
            x["closure"] = npth
        for v in x.values():
            if isinstance(v, (dict, list)):
                _walk_shift(v, loff, boff, poff, clos_map)
    elif isinstance(x, list):
        for v in x:
            if isinstance(v, (dict, list)):
                _walk_shift(v, loff, boff, poff, clos_map)


def _shift_term_targets(t, boff):
    for k in ("target", "unwind", "otherwise"):
        if isinstance(t.get(k), int) and not isinstance(t.get(k), bool):
            t[k] += boff
    if isinstance(t.get("targets"), list):
        t["targets"] = [x + boff for x in t["targets"]]


def _callee_did(t):
    c = t.get("callee") or {}
    return c.get("resolved_did") or c.get("did")


def _refs_to(raw, did, path):
    """Number of remaining references (calls, fn-item constants) to a function."""
    n = 0

    def walk(x):
        nonlocal n
        if isinstance(x, dict):
            if x.get("k") == "call" and _callee_did(x) == did:
                n += 1
            if x.get("k") == "const" and x.get("fn") == path:
                n += 1
            for v in x.values():
                if isinstance(v, (dict, list)):
                    walk(v)
        elif isinstance(x, list):
            for v in x:
                if isinstance(v, (dict, list)):
                    walk(v)
    for b in raw["bodies"]:
        walk(b["blocks"])
        walk(b.get("promoted", []))
    return n


def _fn_value_uses(raw, path):
    n = 0

    def walk(x):
        nonlocal n
        if isinstance(x, dict):
            if x.get("k") == "const" and x.get("fn") == path:
                n += 1
            for k, v in x.items():
                if k == "func":
                    continue  # the callee operand of a direct call is not a value use
                if isinstance(v, (dict, list)):
                    walk(v)
        elif isinstance(x, list):
            for v in x:
                if isinstance(v, (dict, list)):
                    walk(v)
    for b in raw["bodies"]:
        walk(b["blocks"])
    return n


def _inline_one(raw, caller, bi, callee, serial):
    blocks = caller["blocks"]
    t = blocks[bi]["term"]
    loff = len(caller["locals"])
    boff = len(blocks)
    poff = len(caller.get("promoted", []))
    for l in callee["locals"]:
        nl = dict(l)
        nl["inlined_from"] = callee["path"]
        caller["locals"].append(nl)
    if callee.get("promoted"):
        caller.setdefault("promoted", []).extend(copy.deepcopy(callee["promoted"]))
    # closures defined inside the callee get a private copy that belongs to the caller
    clos_map = {}
    pre = callee["path"] + "::{closure#"
    for q in list(raw["bodies"]):
        if q.get("kind") == "closure" and q["path"].startswith(pre):
            nq = copy.deepcopy(q)
            nq["did"] = "%s@%d" % (q["did"], serial)
            nq["path"] = caller["path"] + "::{closure#i%d_" % serial + q["path"][len(pre):]
            nq["parent_path"] = caller["path"]
            clos_map[q["did"]] = (nq["did"], nq["path"])
            raw["bodies"].append(nq)
    new = copy.deepcopy(callee["blocks"])
    call_span = t["span"]
    cleanup_call = bool(blocks[bi].get("cleanup"))
    for nb in new:
        _walk_shift(nb["stmts"], loff, boff, poff, clos_map)
        tt = nb["term"]
        _shift_term_targets(tt, boff)
        for k in ("discr", "args", "dest", "place", "cond", "func"):
            if k in tt and isinstance(tt[k], (dict, list)):
                _walk_shift(tt[k], loff, boff, poff, clos_map)
        if cleanup_call:
            nb["cleanup"] = True
        if tt["k"] == "return":
            nb["stmts"].append({"k": "assign", "place": copy.deepcopy(t["dest"]),
                                "rv": {"k": "use", "op": {"k": "move", "place": {"l": loff}}}, "span": call_span})
            if t.get("target") is not None:
                nb["term"] = {"k": "goto", "target": t["target"], "span": tt["span"]}
            else:
                nb["term"] = {"k": "unreachable", "span": tt["span"]}
        elif tt["k"] == "resume":
            if isinstance(t.get("unwind"), int) and not isinstance(t.get("unwind"), bool):
                nb["term"] = {"k": "goto", "target": t["unwind"], "span": tt["span"]}
    # arguments
    for i, a in enumerate(t["args"]):
        blocks[bi]["stmts"].append({"k": "assign", "place": {"l": loff + 1 + i}, "rv": {"k": "use", "op": copy.deepcopy(a)}, "span": call_span})
    blocks[bi]["term"] = {"k": "goto", "target": boff, "span": call_span}
    blocks.extend(new)


def inline_new_helpers(raw):
    index = load_index()
    if index is None:
        return []
    known = index["functions"]
    by_did = {b["did"]: b for b in raw["bodies"]}
    new = {}
    for b in raw["bodies"]:
        if b.get("kind") in ("fn", "assoc_fn") and b["path"] not in known and b.get("impl_trait") is None:
            if b.get("name") == "main":
                continue
            new[b["did"]] = b
    if not new:
        return []
    notes = []
    # functions used as values cannot be spliced
    for did in list(new):
        if _fn_value_uses(raw, new[did]["path"]):
            notes.append("new function %s is used as a value; not inlined" % new[did]["path"])
            del new[did]
    counts = {}
    serial = 0
    for _round in range(MAX_ROUNDS):
        # leaf-first: a helper is spliced only once it contains no call to another helper
        def calls_new(b):
            return any(bl["term"]["k"] == "call" and _callee_did(bl["term"]) in new for bl in b["blocks"])
        leaves = {d for d, b in new.items() if not calls_new(b)}
        if not leaves:
            break
        progress = False
        for caller in list(raw["bodies"]):
            bi = 0
            while bi < len(caller["blocks"]):
                t = caller["blocks"][bi]["term"]
                if t["k"] == "call":
                    d = _callee_did(t)
                    if d in leaves and d != caller["did"] and len(caller["blocks"]) < MAX_BLOCKS:
                        serial += 1
                        _inline_one(raw, caller, bi, new[d], serial)
                        counts[d] = counts.get(d, 0) + 1
                        progress = True
                bi += 1
        if not progress:
            break
    removed = set()
    for d, b in new.items():
        if counts.get(d) and _refs_to(raw, d, b["path"]) == 0:
            removed.add(d)
            notes.append("function %s (not in the reviewed tree) was inlined into its %d call site(s) and dropped" % (b["path"], counts[d]))
        elif counts.get(d):
            notes.append("function %s (not in the reviewed tree) was inlined into %d call site(s); other references remain" % (b["path"], counts[d]))
    if removed:
        gone_paths = {new[d]["path"] for d in removed}
        raw["bodies"] = [b for b in raw["bodies"] if b["did"] not in removed and
                         not (b.get("kind") == "closure" and any(b["path"].startswith(p + "::{closure#") for p in gone_paths))]
        for im in raw["impls"]:
            im["methods"] = [m for m in im["methods"] if m["did"] not in removed]
    return notes


# ---------------------------------------------------------------------------------------------------------------
# Combinator closures: `opt.map(|x| f(x))` and `match opt { Some(x) => Some(f(x)), None => None }` are the same
# program.  A closure handed to one of the Option/Result combinators below is spliced into the caller as the explicit
# match when it does real work (calls a function of this crate); trivial projections (`|a| a.0`) and the ubiquitous
# error plumbing (`map_err`, `ok_or_else`) are left alone.  Rules then see one shape for both spellings.

_OPT = "std::option::Option"
_RES = "std::result::Result"
# name suffix -> (scrutinee adt, variant on which the closure runs, closure takes the payload?, how to wrap the
#                closure's result, what the other side yields)
ADAPTERS = {
    "option::Option::map":            (_OPT, "Some", True,  ("wrap", _OPT, "Some"), ("agg", _OPT, "None")),
    "option::Option::and_then":       (_OPT, "Some", True,  ("plain",),             ("agg", _OPT, "None")),
    "option::Option::map_or":         (_OPT, "Some", True,  ("plain",),             ("arg", 1)),
    "option::Option::unwrap_or_else": (_OPT, "None", False, ("plain",),             ("payload", "Some")),
    "result::Result::map":            (_RES, "Ok",   True,  ("wrap", _RES, "Ok"),   ("rewrap", _RES, "Err")),
    "result::Result::and_then":       (_RES, "Ok",   True,  ("plain",),             ("rewrap", _RES, "Err")),
}
_VIX = {(_OPT, "None"): 0, (_OPT, "Some"): 1, (_RES, "Ok"): 0, (_RES, "Err"): 1}


def _strip_generics(p):
    out, depth = [], 0
    i = 0
    while i < len(p):
        if p.startswith("::<", i):
            depth += 1
            i += 3
            continue
        ch = p[i]
        if depth:
            if ch == "<":
                depth += 1
            elif ch == ">":
                depth -= 1
            i += 1
            continue
        out.append(ch)
        i += 1
    return "".join(out)


def _does_real_work(cb, n_upvars=0):
    """The closure calls a function of this crate, or captures variables and builds a tuple / struct from them (a
    value computed from both the captured context and the payload, e.g. `(cipher, min(own, peer))`)."""
    for bl in cb["blocks"]:
        t = bl["term"]
        if t["k"] == "call" and t.get("callee") and (t["callee"].get("local") or t["callee"].get("resolved_local")):
            return True
    if n_upvars:
        for bl in cb["blocks"]:
            for st in bl["stmts"]:
                rv = st.get("rv") or {}
                if rv.get("k") == "aggregate" and rv.get("agg") in ("tuple", "adt") and rv.get("ops") and \
                        not str(rv.get("adt", "")).endswith(("option::Option", "result::Result")):
                    return True
    return False


def _payload_place(local, adt, variant, ty):
    pl = {"l": local, "p": [{"k": "downcast", "i": _VIX[(adt, variant)], "v": variant, "adt": adt},
                           {"k": "field", "i": 0, "n": "0", "adt": adt, "variant": variant}]}
    if ty is not None:
        pl["p"][1]["ty"] = ty
        pl["ty"] = ty
    return pl


def _agg(adt, variant, ops):
    return {"k": "aggregate", "agg": "adt", "adt": adt, "variant": variant, "variant_index": _VIX[(adt, variant)], "is_enum": True,
            "fields": ["0"] if ops else [], "ops": ops}


def splice_combinator_closures(raw):
    types = raw["types"]
    isize_ix = next((i for i, t in enumerate(types) if t.get("s") == "isize"), None)
    if isize_ix is None:
        return []
    by_did = {b["did"]: b for b in raw["bodies"]}
    notes = []
    spliced = set()
    serial = 100000
    for caller in list(raw["bodies"]):
        bi = 0
        while bi < len(caller["blocks"]) and len(caller["blocks"]) < MAX_BLOCKS:
            blk = caller["blocks"][bi]
            t = blk["term"]
            bi += 1
            if t["k"] != "call" or not t.get("callee") or blk.get("cleanup") or t.get("target") is None or t["dest"].get("p"):
                continue
            name = _strip_generics(t["callee"].get("path") or "")
            key = next((k for k in ADAPTERS if name == k or name.endswith("::" + k)), None)
            if key is None:
                continue
            adt, run_on, takes_payload, wrap, other = ADAPTERS[key]
            args = t["args"]
            scrut, clos = args[0], args[-1]
            if scrut.get("k") not in ("move", "copy") or scrut["place"].get("p") or clos.get("k") not in ("move", "copy") or clos["place"].get("p"):
                continue
            # the closure value is built in this function by a single aggregate
            cl_local = clos["place"]["l"]
            defs = [s for b2 in caller["blocks"] if not b2.get("cleanup") for s in b2["stmts"] if s["k"] == "assign" and not s["place"].get("p") and s["place"]["l"] == cl_local]
            if len(defs) != 1 or defs[0]["rv"].get("agg") != "closure":
                continue
            cb = by_did.get(defs[0]["rv"].get("closure_did"))
            if cb is None or not _does_real_work(cb, len(defs[0]["rv"].get("ops") or [])) or cb["did"] == caller["did"]:
                continue
            if cb["arg_count"] != (2 if takes_payload else 1):
                continue
            s_local = scrut["place"]["l"]
            s_ty = types[caller["locals"][s_local]["ty"]]
            targs = [a for a in s_ty.get("args", []) if isinstance(a, int)]
            span = t["span"]
            # new locals
            base = len(caller["locals"])
            caller["locals"].append({"ty": isize_ix})                        # discriminant
            caller["locals"].append({"ty": cb["locals"][1]["ty"]})           # closure environment
            caller["locals"].append({"ty": cb["locals"][0]["ty"]})           # closure result
            d_l, e_l, r_l = base, base + 1, base + 2
            p_l = None
            if takes_payload:
                caller["locals"].append({"ty": cb["locals"][2]["ty"]})
                p_l = base + 3
            env_ty = types[cb["locals"][1]["ty"]]
            nb = len(caller["blocks"])
            hit, wrapb, miss = nb, nb + 1, nb + 2
            dest = t["dest"]
            cont = t["target"]
            # scrutinise
            blk["stmts"].append({"k": "assign", "place": {"l": d_l}, "rv": {"k": "discr", "place": {"l": s_local}}, "span": span})
            run_v = _VIX[(adt, run_on)]
            blk["term"] = {"k": "switch", "discr": {"k": "move", "place": {"l": d_l}}, "values": [run_v], "targets": [hit], "otherwise": miss, "span": span}
            # the side on which the closure runs
            hstm = []
            if takes_payload:
                hstm.append({"k": "assign", "place": {"l": p_l}, "rv": {"k": "use", "op": {"k": "move", "place": _payload_place(s_local, adt, run_on, cb["locals"][2]["ty"])}}, "span": span})
            if env_ty.get("k") == "ref":
                hstm.append({"k": "assign", "place": {"l": e_l}, "rv": {"k": "ref", "mut": bool(env_ty.get("mut")), "place": {"l": cl_local}}, "span": span})
            else:
                hstm.append({"k": "assign", "place": {"l": e_l}, "rv": {"k": "use", "op": {"k": "move", "place": {"l": cl_local}}}, "span": span})
            call_args = [{"k": "move", "place": {"l": e_l}}] + ([{"k": "move", "place": {"l": p_l}}] if takes_payload else [])
            hterm = {"k": "call", "args": call_args, "dest": {"l": r_l}, "target": wrapb, "unwind": t.get("unwind"), "span": span, "fn_span": span,
                     "func": {"k": "const"}, "callee": {"path": cb["path"], "did": cb["did"], "local": True, "name": ""}}
            caller["blocks"].append({"stmts": hstm, "term": hterm})
            # wrap the closure's result
            if wrap[0] == "wrap":
                rv = _agg(wrap[1], wrap[2], [{"k": "move", "place": {"l": r_l}}])
            else:
                rv = {"k": "use", "op": {"k": "move", "place": {"l": r_l}}}
            caller["blocks"].append({"stmts": [{"k": "assign", "place": dict(dest), "rv": rv, "span": span}], "term": {"k": "goto", "target": cont, "span": span}})
            # the other side
            if other[0] == "agg":
                rv2 = _agg(other[1], other[2], [])
            elif other[0] == "arg":
                rv2 = {"k": "use", "op": copy.deepcopy(args[other[1]])}
            elif other[0] == "payload":
                rv2 = {"k": "use", "op": {"k": "move", "place": _payload_place(s_local, adt, other[1], targs[0] if targs else None)}}
            else:  # rewrap the untouched variant
                ety = targs[1] if len(targs) > 1 else None
                rv2 = _agg(other[1], other[2], [{"k": "move", "place": _payload_place(s_local, adt, other[2], ety)}])
            caller["blocks"].append({"stmts": [{"k": "assign", "place": dict(dest), "rv": rv2, "span": span}], "term": {"k": "goto", "target": cont, "span": span}})
            serial += 1
            _inline_one(raw, caller, hit, cb, serial)
            spliced.add(cb["did"])
            notes.append("closure %s passed to %s was spliced into %s as the explicit match" % (cb["path"], key.split("::")[-1], caller["path"]))
    if spliced:
        # a closure whose only use was the combinator call now lives in its caller; drop the separate body (and the
        # bodies nested in it were copied by _inline_one) so that nothing is counted twice
        gone_paths = {by_did[d]["path"] for d in spliced}
        raw["bodies"] = [b for b in raw["bodies"] if b["did"] not in spliced and
                         not (b.get("kind") == "closure" and any(b["path"].startswith(pp + "::{closure#") for pp in gone_paths))]
    return notes
