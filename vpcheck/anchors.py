"""Semantic anchors of vpncloud shared by the rules (resolved callees, fields, entry points)."""
from .callgraph import callee_is
from .facts import AnchorError
from .region import Gate
from .mirutil import find_calls

SIG_VERIFY = ("signature::UnparsedPublicKey::verify", "UnparsedPublicKey<B>::verify")
AEAD_OPEN = ("aead::LessSafeKey::open_in_place",)
AEAD_SEAL = ("aead::LessSafeKey::seal_in_place_separate_tag",)
SOCKET_SEND = ("net::Socket::send",)
SOCKET_RECV = ("net::Socket::receive",)
DEVICE_WRITE = ("device::Device::write",)
DEVICE_READ = ("device::Device::read",)

CLOUD = "GenericCloud"


def _cached(prog, name, mk):
    if not hasattr(prog, "_anch"):
        prog._anch = {}
    if name not in prog._anch:
        prog._anch[name] = mk()
    return prog._anch[name]


def is_sig_verify(t):
    c = t.get("callee")
    return bool(c) and c["path"].startswith("ring::signature::UnparsedPublicKey") and c["name"] == "verify"


def is_aead_open(t):
    c = t.get("callee")
    return bool(c) and c["path"].startswith("ring::aead::LessSafeKey") and c["name"] == "open_in_place"


def is_aead_seal(t):
    c = t.get("callee")
    return bool(c) and c["path"].startswith("ring::aead::LessSafeKey") and c["name"].startswith("seal_in_place")


def is_trait_call(t, trait_suffix, method):
    c = t.get("callee")
    if not c or c.get("name") != method:
        return False
    tr = c.get("trait")
    return bool(tr) and (tr == trait_suffix or tr.endswith("::" + trait_suffix))


def is_socket_send(t):
    return is_trait_call(t, "net::Socket", "send")


def is_socket_receive(t):
    return is_trait_call(t, "net::Socket", "receive")


def is_device_write(t):
    return is_trait_call(t, "device::Device", "write")


def is_device_read(t):
    return is_trait_call(t, "device::Device", "read")


def sig_gate(prog):
    return _cached(prog, "sig_gate", lambda: Gate(prog, "G_sig", is_sig_verify))


def aead_gate(prog):
    return _cached(prog, "aead_gate", lambda: Gate(prog, "G_aead", is_aead_open))


def calls_where(prog, pred, bodies=None):
    out = []
    for b in (bodies if bodies is not None else prog.bodies):
        for bi, t in b.calls():
            if pred(t):
                out.append((b, bi, t))
    return out


def cloud_fn(prog, name):
    hits = [b for b in prog.bodies if b.kind != "closure" and b.name == name and b.impl_self() is not None
            and (b.impl_self().adt_path() or "").endswith("cloud::GenericCloud") and "impl_trait" not in b.d]
    if len(hits) != 1:
        raise AnchorError("GenericCloud::%s matched %d bodies" % (name, len(hits)))
    return hits[0]


def method(prog, type_suffix, name):
    hits = [b for b in prog.bodies if b.kind != "closure" and b.name == name and b.impl_self() is not None
            and ((b.impl_self().adt_path() or "") == type_suffix or (b.impl_self().adt_path() or "").endswith("::" + type_suffix))]
    if len(hits) != 1:
        raise AnchorError("%s::%s matched %d bodies" % (type_suffix, name, len(hits)))
    return hits[0]


def with_closures(prog, body):
    return [body] + prog.closures_of(body)
