"""Statically known lengths of byte arrays/slices and the length-mismatch rule (C13.R3 / C14.R2)."""
from .facts import op_place, op_local, op_const
from .callgraph import callee_is
from .mirutil import defuse, root_place, origin

DIGEST_LEN = {
    "ring::digest::SHA1_FOR_LEGACY_USE_ONLY": 20,
    "ring::digest::SHA256": 32,
    "ring::digest::SHA384": 48,
    "ring::digest::SHA512": 64,
    "ring::digest::SHA512_256": 32,
}

INDEX_CALLS = ("ops::Index::index", "ops::IndexMut::index_mut")


def ty_len(ty):
    t = ty.deref()
    if t.k == "array" and t.d.get("len") is not None:
        return t.d["len"]
    return None


def static_len(body, op, depth=0):
    """Length of the array/slice denoted by operand `op` if statically known, else None."""
    if depth > 10:
        return None
    prog = body.prog
    if op["k"] == "const":
        n = ty_len(prog.ty(op["ty"]))
        if n is not None:
            return n
        if "promoted" in op:
            pb = body.promoted[op["promoted"]] if op["promoted"] < len(body.promoted) else None
            if pb is not None:
                return ty_len(pb.local_ty(0))
        if "slice_len" in op:
            return op["slice_len"]
        if "bytes" in op:
            return len(op["bytes"])
        return None
    p = op_place(op)
    n = ty_len(body.place_ty(p))
    if n is not None:
        return n
    r = root_place(body, p)
    n = ty_len(body.place_ty(r)) if ("ty" in r or not r.get("p")) else None
    if n is not None:
        return n
    l = r["l"]
    if 1 <= l <= body.arg_count or r.get("p") and [e for e in r["p"] if e["k"] != "deref"]:
        return None
    d = defuse(body).single_def(l)
    if d is None:
        return None
    if d[0] == "stmt":
        rv = d[3]["rv"]
        if rv["k"] == "cast" and "Unsize" in rv["cast"]:
            return static_len(body, rv["op"], depth + 1)
        if rv["k"] == "use":
            return static_len(body, rv["op"], depth + 1)
        if rv["k"] in ("ref", "rawptr"):
            return static_len(body, {"k": "copy", "place": rv["place"]}, depth + 1)
        if rv["k"] == "repeat":
            return rv.get("count")
        if rv["k"] == "aggregate" and rv.get("agg") == "array":
            return len(rv["ops"])
        return None
    t = d[2]
    if callee_is(t, *INDEX_CALLS) and len(t["args"]) == 2:
        base = static_len(body, t["args"][0], depth + 1)
        rng = origin(body, t["args"][1])
        if rng[0] == "rvalue" and rng[2]["rv"]["k"] == "aggregate":
            rv = rng[2]["rv"]
            adt = rv.get("adt", "")
            vals = [const_of(body, o) for o in rv["ops"]]
            if adt.endswith("ops::Range") and None not in vals:
                return max(0, vals[1] - vals[0])
            if adt.endswith("ops::RangeTo") and None not in vals:
                return vals[0]
            if adt.endswith("ops::RangeInclusive") and len(vals) >= 2 and None not in vals[:2]:
                return max(0, vals[1] - vals[0] + 1)
            if adt.endswith("ops::RangeFrom") and None not in vals and base is not None:
                return max(0, base - vals[0])
            if adt.endswith("ops::RangeFull"):
                return base
        return None
    if callee_is(t, "convert::AsRef::as_ref", "ops::Deref::deref", "as_slice", "as_ref") and t["args"]:
        # digest output
        a = t["args"][0]
        ty = body.place_ty(op_place(a)).deref() if op_place(a) else None
        if ty is not None and ty.k == "adt" and ty.d["path"] == "ring::digest::Digest":
            o = origin(body, a)
            if o[0] == "call" and callee_is(o[2], "ring::digest::digest"):
                alg = origin(body, o[2]["args"][0])
                if alg[0] == "const" and alg[1].get("static") in DIGEST_LEN:
                    return DIGEST_LEN[alg[1]["static"]]
            return None
        return static_len(body, a, depth + 1)
    return None


def const_of(body, op):
    c = op_const(op)
    if c is not None:
        return c
    o = origin(body, op)
    if o[0] == "const":
        return op_const(o[1])
    return None


def is_seq_ty(ty):
    t = ty.deref()
    return t.k in ("array", "slice")


def eq_sites(prog, bodies=None):
    """All PartialEq::eq/ne calls between arrays/slices. Yields (body, bi, term, len_a, len_b)."""
    out = []
    for b in (bodies if bodies is not None else prog.bodies):
        for bi, t in b.calls():
            c = t.get("callee")
            if not c or c.get("name") not in ("eq", "ne") or not (c.get("trait") or "").endswith("cmp::PartialEq"):
                continue
            targs = [prog.ty(x) for x in c.get("targs", [])]
            if len(targs) < 2 or not (is_seq_ty(targs[0]) and is_seq_ty(targs[1])):
                continue
            if len(t["args"]) != 2:
                continue
            la = static_len(b, t["args"][0])
            lb = static_len(b, t["args"][1])
            out.append((b, bi, t, la, lb))
    return out
