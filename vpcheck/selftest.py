"""Checker self-validation (DESIGN.md section 7): mutant corpus.

Each patch under /verif/selftest/mutants is applied to a scratch copy of /repo's current working
tree (outside /repo and /verif, removed afterwards); the property's rules must report exactly the
expected rule instances (mutants) or stay silent (behaviour-preserving refactors)."""
import json
import os
import shutil
import subprocess
import sys
import tempfile
from concurrent.futures import ThreadPoolExecutor

from .build import VERIF, REPO, InfraError
from .engine import evaluate

MUT_DIR = os.path.join(VERIF, "selftest", "mutants")
EXPECT = os.path.join(VERIF, "selftest", "expectations.json")


def _scratch_copy():
    d = tempfile.mkdtemp(prefix="vpselftest-")
    dst = os.path.join(d, "repo")
    os.makedirs(dst)
    for item in ("src", "Cargo.toml", "Cargo.lock", "build.rs", "benches", "assets"):
        p = os.path.join(REPO, item)
        if os.path.isdir(p):
            shutil.copytree(p, os.path.join(dst, item))
        elif os.path.exists(p):
            shutil.copy2(p, os.path.join(dst, item))
    return d, dst


def run_one(prop, rules, name, spec):
    d, dst = _scratch_copy()
    try:
        patch = os.path.join(MUT_DIR, name)
        r = subprocess.run(["patch", "-p1", "--no-backup-if-mismatch", "-s", "-f", "-i", patch], cwd=dst,
                           stdout=subprocess.PIPE, stderr=subprocess.STDOUT, text=True)
        if r.returncode != 0:
            return name, "skipped", "patch does not apply to the current tree"
        try:
            cx, prog = evaluate(prop, "selftest", rules, "default", repo=dst)
        except InfraError as e:
            return name, "skipped", "mutant does not compile: %s" % str(e)[-300:]
        failed = sorted(set(o.fullkey() for o in cx.obligations if not o.ok))
        exp = spec.get("expect", [])
        if spec.get("kind") == "refactor":
            if failed:
                return name, "FAIL", "refactor raised alarms: %s" % failed
            return name, "ok", "silent on behaviour-preserving refactor"
        missing = [k for k in exp if k not in failed]
        if missing:
            return name, "FAIL", "expected %s, got %s" % (exp, failed)
        extra = [k for k in failed if k not in exp and k not in spec.get("also_ok", [])]
        return name, "ok", "fired %s%s" % (exp, (" (+%s)" % extra) if extra else "")
    finally:
        shutil.rmtree(d, ignore_errors=True)


def run_selftest(prop, rules=None):
    from .registry import PROPERTIES
    rules = rules or PROPERTIES[prop]["rules"]
    if not os.path.exists(EXPECT):
        print("selftest: no expectations file")
        return 0
    with open(EXPECT) as f:
        exp = json.load(f)
    mine = {k: v for k, v in exp.items() if v["property"] == prop or prop in v.get("also", [])}
    if not mine:
        print("selftest property=%s: no mutants registered" % prop)
        return 0
    code = 0
    results = []
    with ThreadPoolExecutor(max_workers=int(os.environ.get("VPCHECK_JOBS", "6"))) as ex:
        futs = [ex.submit(run_one, prop, rules, name, spec) for name, spec in sorted(mine.items())]
        for fu in futs:
            results.append(fu.result())
    for name, status, msg in results:
        print("  selftest %-55s %s  %s" % (name, status, msg))
        if status == "FAIL":
            code = 1
    n_ok = sum(1 for r in results if r[1] == "ok")
    print("selftest property=%s mutants=%d ok=%d skipped=%d failed=%d" % (
        prop, len(results), n_ok, sum(1 for r in results if r[1] == "skipped"), sum(1 for r in results if r[1] == "FAIL")))
    if code:
        print("SELFTEST-FAILURE property=%s (the checker no longer detects a registered mutant)" % prop)
        return 3
    return 0


if __name__ == "__main__":
    sys.exit(run_selftest(sys.argv[1]))
