"""Thorough tier: mutant corpus self-test (filled in later)."""


def run_selftest(prop):
    return 0
