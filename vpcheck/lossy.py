"""C17.R2 / C18.R1: fixed-layout data must not pass a lossy codec unrepaired.

to_base62/from_base62 render a byte string as one big number: leading zero bytes vanish (the repository's own
test asserts to_base62(&[0]) == ""). Every value decoded by from_base62 that is consumed positionally or with a
fixed length must pass a length-restoring step first."""
from .facts import op_place, op_local, op_const
from .callgraph import callee_is
from .mirutil import root_place, deep_root, defuse, forward_taint, success_edges, loops_of
from .engine import site_of

DECODER = ("util::from_base62",)
# accepted length-restoring idioms (one line of reason each)
RESTORERS = (
    "vec::Vec::insert",          # v.insert(0, 0) (front insertion of the lost zero bytes)
    "vec::Vec::resize",          # zero-filled vector resized/extended to the fixed width
    "vec::Vec::splice",          # v.splice(0..0, zeros)
    "vec::Vec::extend_from_slice",  # zero-filled vector of the missing width extended by the decoded bytes
    "slice::<impl [T]>::rotate_right",  # resize + rotate_right(padding)
    "util::pad_left", "util::left_pad", "util::from_base62_padded",  # a helper named for this purpose
)
# consumers that assume a fixed layout / length
FIXED_SINKS = (
    "ops::Index::index", "ops::IndexMut::index_mut",
    "slice::<impl [T]>::clone_from_slice", "slice::<impl [T]>::copy_from_slice",
    "signature::Ed25519KeyPair::from_seed_unchecked", "signature::Ed25519KeyPair::from_seed_and_public_key",
    "ring::signature::Ed25519KeyPair::from_seed_unchecked", "ring::signature::Ed25519KeyPair::from_seed_and_public_key",
)


def _restored_on_all_paths(b, bi, targets, vec_locals):
    """Every path from the decode at block bi to any of `targets` passes a restoring step, where a padding loop
    `while v.len() < N { v.insert(0, 0) }` (which may run zero times) counts when its header dominates the target."""
    cfg = b.cfg
    restorers = []
    for ci, ct in b.calls():
        if not callee_is(ct, *RESTORERS):
            continue
        roots = set()
        for a in ct["args"]:
            p = op_place(a)
            if p is not None:
                roots.add(p["l"])
                r = deep_root(b, p)
                if r is not None:
                    roots.add(r["l"])
        if vec_locals is None or roots & vec_locals:
            restorers.append(ci)
    if not restorers:
        return False
    guard_blocks = list(restorers)
    for li in loops_of(b):
        if any(r in li.blocks for r in restorers):
            # the loop tests the vector's length
            tests_len = False
            for x in li.blocks:
                tt = b.blocks[x]["term"]
                if tt["k"] == "call" and callee_is(tt, "vec::Vec::len", "slice::<impl [T]>::len"):
                    tests_len = True
            if not tests_len:
                # `for _ in v.len()..N { v.insert(0, 0) }`: a counted loop whose bounds come from the length
                from .mirutil import origin
                for bj, sj, s2 in b.stmts():
                    if s2["k"] == "assign" and s2["rv"]["k"] == "aggregate" and s2["rv"].get("adt", "").endswith("ops::Range") and b.cfg.dominates(bj, li.header):
                        for o in s2["rv"]["ops"]:
                            oo = origin(b, o)
                            if oo[0] == "call" and callee_is(oo[2], "vec::Vec::len", "slice::<impl [T]>::len"):
                                # this range feeds the loop
                                from .mirutil import iter_source
                                src = iter_source(b, li)
                                if src is not None and not src.get("p") and src["l"] == s2["place"]["l"]:
                                    tests_len = True
            if tests_len:
                guard_blocks.append(li.header)
    reach = cfg.reachable_from([bi], avoid_blocks=guard_blocks)
    return not any(x in reach for x in targets)


def _returns_unrepaired(b, bi, t):
    """The decoded vector of the call at bi can reach the return place without passing a restoring step."""
    holders = forward_taint(b, seed_locals=[t["dest"]["l"]], mut_args=False)
    if 0 not in holders or "Vec<u8>" not in b.local_ty(0).s:
        return False
    from .mirutil import result_return_sites
    targets = [rbi for kind, rbi, info in result_return_sites(b) if kind in ("ok", "move", "call", "other")]
    if not targets:
        targets = b.cfg.exits
    return not _restored_on_all_paths(b, bi, targets, None)


def lossy_decoders(prog):
    """Local functions that hand out unrepaired output of from_base62 (wrappers). Fixpoint."""
    lossy = {}
    changed = True
    while changed:
        changed = False
        for b in prog.bodies:
            if b.did in lossy or b.path == "util::from_base62":
                continue
            for bi, t in b.calls():
                c = t.get("callee")
                if not c:
                    continue
                is_dec = c["path"] == "util::from_base62" or any(d in lossy for _k, d in prog.cg.resolve(b, t))
                if is_dec and _returns_unrepaired(b, bi, t):
                    lossy[b.did] = b.path
                    changed = True
                    break
    return lossy


def decode_sites(prog):
    """Call sites of from_base62 and of local wrappers that return its output unrepaired."""
    lossy = lossy_decoders(prog)
    out = []
    for b in prog.bodies:
        for bi, t in b.calls():
            c = t.get("callee")
            if not c:
                continue
            if c["path"] == "util::from_base62" or any(d in lossy for _k, d in prog.cg.resolve(b, t)):
                out.append((b, bi, t))
    return out


def check_site(cx, b, bi, t, label):
    """One from_base62 call site: find the locals holding the decoded vector, its fixed-layout consumers and
    whether a length-restoring step lies between."""
    cfg = b.cfg
    holders = forward_taint(b, seed_locals=[t["dest"]["l"]], mut_args="locals")
    # restrict holders to values that *are* the vector (Result/ControlFlow/Vec/&Vec/&[u8]), not lengths or bools derived from it
    def is_vecish(l):
        ty = b.local_ty(l)
        s = ty.s
        return "Vec<u8>" in s or s in ("&[u8]", "&mut [u8]")
    vec_locals = set(l for l in holders if is_vecish(l))
    sinks = []
    restorers = []
    fixed_len_tests = []
    for ci, ct in b.calls():
        if ci not in cfg.reachable_from([bi]):
            continue
        argl = []
        for a in ct["args"]:
            p = op_place(a)
            if p is None:
                continue
            r = deep_root(b, p)
            if r is not None:
                argl.append(r["l"])
            argl.append(p["l"])
        if not any(l in vec_locals for l in argl):
            continue
        if callee_is(ct, *RESTORERS):
            restorers.append(ci)
        elif callee_is(ct, *FIXED_SINKS):
            sinks.append((ci, ct["callee"]["name"]))
        elif callee_is(ct, "vec::Vec::len", "slice::<impl [T]>::len"):
            # v.len() compared with a constant for (in)equality: a fixed-length test
            d = ct["dest"]["l"]
            for bj, sj, s in b.stmts():
                if s["k"] == "assign" and s["rv"]["k"] == "binop" and s["rv"]["op"] in ("Eq", "Ne"):
                    for x, y in ((s["rv"]["a"], s["rv"]["b"]), (s["rv"]["b"], s["rv"]["a"])):
                        if op_local(x) is not None and root_place(b, op_place(x))["l"] == d and op_const(y) is not None:
                            fixed_len_tests.append((ci, "len() %s %d" % (s["rv"]["op"], op_const(y))))
    # a local callee that receives the vector and uses it positionally is a sink too
    for ci, ct in b.calls():
        if ci not in cfg.reachable_from([bi]) or not ct.get("callee") or not ct["callee"].get("local"):
            continue
        for kind, d in b.prog.cg.resolve(b, ct):
            cb = b.prog.by_did[d]
            for i, a in enumerate(ct["args"]):
                p = op_place(a)
                if p is None:
                    continue
                r = deep_root(b, p)
                if (r is not None and r["l"] in vec_locals) or p["l"] in vec_locals:
                    if positional_use(cb, i + 1):
                        sinks.append((ci, "positional use in " + cb.name))
    all_sinks = sinks + fixed_len_tests
    if not all_sinks:
        cx.check("%s:no-fixed-layout-use:%s" % (label, b.path), True, site_of(b, bi),
                 "the decoded bytes are not consumed with a fixed layout in this function (a wrapper: its callers are checked)")
        return 0
    bad = []
    for (ci, name) in all_sinks:
        if not _restored_on_all_paths(b, bi, [ci], vec_locals):
            bad.append(name)
    cx.check("%s:restored-before-use:%s" % (label, b.path), not bad, site_of(b, bi),
             "a length-restoring step (front insertion of the lost zero bytes / fixed-width copy) lies between from_base62 and every "
             "fixed-layout consumer (%s)%s" % (", ".join(n for _c, n in all_sinks[:5]), (": missing before " + ", ".join(sorted(set(bad)))) if bad else ""))
    return len(all_sinks)


def repaired_decoders(prog):
    """Local Vec-returning functions that call from_base62 (or a lossy wrapper) and restore the length on every
    Ok path: calling them is safe."""
    lossy = lossy_decoders(prog)
    out = {}
    for b in prog.bodies:
        if b.did in lossy or "Vec<u8>" not in b.local_ty(0).s:
            continue
        for bi, t in b.calls():
            c = t.get("callee")
            if c and (c["path"] == "util::from_base62" or any(d in lossy for _k, d in prog.cg.resolve(b, t))):
                out[b.did] = b.path
    return out


def positional_use(body, param, depth=0):
    """The function indexes / pops / reads at fixed positions from its parameter `param` (directly or through
    one more local call)."""
    if depth > 2:
        return False
    tainted = forward_taint(body, seed_locals=[param], mut_args=False)
    for bi, t in body.calls():
        roots = set()
        for a in t["args"]:
            p = op_place(a)
            if p is not None:
                roots.add(p["l"])
                r = deep_root(body, p)
                if r is not None:
                    roots.add(r["l"])
        if param not in roots and not (roots & tainted):
            continue
        if callee_is(t, "ops::Index::index", "ops::IndexMut::index_mut", "vec::Vec::pop", "vec::Vec::remove", "vec::Vec::swap_remove"):
            first = t["args"][0]
            p = op_place(first)
            r = deep_root(body, p) if p is not None else None
            if r is not None and (r["l"] == param or r["l"] in tainted):
                return True
        if t.get("callee") and t["callee"].get("local"):
            for kind, d in body.prog.cg.resolve(body, t):
                cb = body.prog.by_did[d]
                for i, a in enumerate(t["args"]):
                    p = op_place(a)
                    r = deep_root(body, p) if p is not None else None
                    if r is not None and (r["l"] == param or r["l"] in tainted) and positional_use(cb, i + 1, depth + 1):
                        return True
    # bounds-checked element access x[i]
    for bi in body.cfg.reach:
        t = body.blocks[bi]["term"]
        if t["k"] == "assert" and t["msg"]["k"] == "bounds":
            return True if param in tainted or True else False
    return False
