"""Fact base: loader and accessors for the JSON produced by the vpfacts driver (A1)."""
import json


class Ty:
    __slots__ = ("ix", "d", "prog")

    def __init__(self, prog, ix):
        self.prog = prog
        self.ix = ix
        self.d = prog.types[ix]

    @property
    def s(self):
        return self.d["s"]

    @property
    def k(self):
        return self.d["k"]

    def __repr__(self):
        return self.d["s"]

    def deref(self):
        """Strip references / raw pointers / Box."""
        t = self
        while t.k in ("ref", "ptr"):
            t = Ty(self.prog, t.d["to"])
        return t

    def elem(self):
        if self.k in ("array", "slice"):
            return Ty(self.prog, self.d["elem"])
        return None

    def adt_path(self):
        t = self.deref()
        if t.k == "adt":
            return t.d["path"]
        return None

    def args(self):
        return [Ty(self.prog, a) for a in self.d.get("args", []) if isinstance(a, int)]

    def int_range(self):
        if self.k == "int":
            b = self.d["bits"]
            if self.d["signed"]:
                return (-(1 << (b - 1)), (1 << (b - 1)) - 1)
            return (0, (1 << b) - 1)
        if self.k == "bool":
            return (0, 1)
        if self.k == "char":
            return (0, 0x10FFFF)
        return None


class Body:
    def __init__(self, prog, d, parent=None, promoted_ix=None):
        self.prog = prog
        self.d = d
        self.path = d["path"]
        self.did = d["did"]
        self.kind = d.get("kind", "promoted")
        self.name = d.get("name", "")
        self.blocks = d["blocks"]
        self.locals = d["locals"]
        self.arg_count = d["arg_count"]
        self.span = d["span"]
        self.file = d["span"]["file"]
        self.promoted_ix = promoted_ix
        self.parent_body = parent
        self.promoted = [Body(prog, p, self, i) for i, p in enumerate(d.get("promoted", []))]
        self._cfg = None

    @property
    def module(self):
        # crate-relative module path = file name
        return self.file

    def local_ty(self, l):
        return Ty(self.prog, self.locals[l]["ty"])

    def local_name(self, l):
        return self.locals[l].get("name")

    def place_ty(self, place):
        if "ty" in place:
            return Ty(self.prog, place["ty"])
        return self.local_ty(place["l"])

    def impl_self(self):
        if "impl_self" in self.d:
            return Ty(self.prog, self.d["impl_self"])
        return None

    @property
    def cfg(self):
        if self._cfg is None:
            from .cfg import CFG
            self._cfg = CFG(self)
        return self._cfg

    def terms(self):
        for i, b in enumerate(self.blocks):
            yield i, b["term"]

    def calls(self):
        """Yield (block index, terminator) for non-cleanup call terminators."""
        for i, b in enumerate(self.blocks):
            if b.get("cleanup"):
                continue
            if b["term"]["k"] == "call":
                yield i, b["term"]

    def stmts(self):
        for i, b in enumerate(self.blocks):
            if b.get("cleanup"):
                continue
            for j, s in enumerate(b["stmts"]):
                yield i, j, s

    def loc(self, span=None):
        sp = span or self.span
        return "%s:%d" % (sp["file"], sp["line"])

    def __repr__(self):
        return "<Body %s>" % self.path


class Program:
    def __init__(self, path):
        with open(path) as f:
            d = json.load(f)
        self.raw = d
        self.source = path
        from .renames import normalise
        from .inline import inline_new_helpers, splice_combinator_closures
        self.rename_notes = normalise(d)
        self.rename_notes += inline_new_helpers(d)
        self.rename_notes += splice_combinator_closures(d)
        self.crate = d["crate"]
        self.nonce = d.get("nonce")
        self.config = d.get("config")
        self.types = d["types"]
        self.bodies = [Body(self, b) for b in d["bodies"]]
        self.by_path = {}
        self.by_did = {}
        for b in self.bodies:
            self.by_path.setdefault(b.path, []).append(b)
            self.by_did[b.did] = b
        # a closure answers to the name of the function it is written in (who-may-write / who-may-call rules
        # treat `iter.for_each(|x| x.field = ..)` in f as a write by f)
        for b in self.bodies:
            b.owner = b
            if b.kind == "closure":
                cur = b
                for _ in range(8):
                    pp = cur.d.get("parent_path")
                    par = self.by_path.get(pp, [None])[0] if pp else None
                    if par is None:
                        break
                    cur = par
                    if cur.kind != "closure":
                        break
                if cur is not b and cur.kind != "closure":
                    b.owner = cur
                    b.name = cur.name
        self.adts = {a["path"]: a for a in d["adts"]}
        self.traits = {t["path"]: t for t in d["traits"]}
        self.impls = d["impls"]
        self.consts = {c["path"]: c for c in d["consts"]}
        # trait item did -> list of local impl method dids
        self.trait_impls = {}
        for im in self.impls:
            for m in im["methods"]:
                ti = m.get("trait_item")
                if ti:
                    self.trait_impls.setdefault(ti, []).append(m["did"])
        # default method bodies: trait item that has a body itself
        self._cg = None

    def ty(self, ix):
        return Ty(self, ix)

    def body(self, suffix, required=True):
        """Find the unique body whose path equals or ends with `suffix` (:: boundary)."""
        hits = [b for b in self.bodies if b.path == suffix or b.path.endswith("::" + suffix)]
        if len(hits) == 1:
            return hits[0]
        if not hits:
            if required:
                raise AnchorError("function not found: %s" % suffix)
            return None
        exact = [b for b in hits if b.path == suffix]
        if len(exact) == 1:
            return exact[0]
        raise AnchorError("ambiguous function anchor %s: %s" % (suffix, [b.path for b in hits]))

    def find_bodies(self, pred):
        return [b for b in self.bodies if pred(b)]

    def closures_of(self, body):
        pre = body.path + "::{closure#"
        return [b for b in self.bodies if b.path.startswith(pre)]

    def const_value(self, suffix):
        hits = [c for p, c in self.consts.items() if p == suffix or p.endswith("::" + suffix)]
        if len(hits) != 1:
            raise AnchorError("constant anchor %s matched %d" % (suffix, len(hits)))
        if "value" not in hits[0]:
            raise AnchorError("constant %s has no scalar value" % suffix)
        return hits[0]["value"]

    @property
    def cg(self):
        if self._cg is None:
            from .callgraph import CallGraph
            self._cg = CallGraph(self)
        return self._cg


class AnchorError(Exception):
    """A semantic anchor (function, field, callee, variant) was not found: fail closed."""
    pass


# ---------------------------------------------------------------- helpers on raw MIR JSON

def is_local(place):
    return not place.get("p")


def op_place(op):
    if op["k"] in ("copy", "move"):
        return op["place"]
    return None


def op_local(op):
    """Local index if the operand is a bare local (no projection)."""
    p = op_place(op)
    if p is not None and not p.get("p"):
        return p["l"]
    return None


def op_const(op):
    if op["k"] == "const" and "v" in op and isinstance(op["v"], int):
        return op["v"]
    return None


def place_fields(place):
    """List of (adt, field name) along the projection."""
    out = []
    for e in place.get("p", []):
        if e["k"] == "field":
            out.append((e.get("adt"), e.get("n", str(e["i"]))))
    return out


def place_has_field(place, adt_suffix, field):
    for adt, n in place_fields(place):
        if n == field and adt is not None and (adt == adt_suffix or adt.endswith("::" + adt_suffix) or adt.split("::")[-1] == adt_suffix):
            return True
    return False


def place_str(body, place):
    s = "_%d" % place["l"]
    n = body.local_name(place["l"])
    if n:
        s = "%s{%s}" % (s, n)
    for e in place.get("p", []):
        k = e["k"]
        if k == "deref":
            s = "(*%s)" % s
        elif k == "field":
            s = "%s.%s" % (s, e.get("n", e["i"]))
        elif k == "downcast":
            s = "(%s as %s)" % (s, e.get("v", e["i"]))
        elif k == "index":
            s = "%s[_%d]" % (s, e["l"])
        elif k == "cidx":
            s = "%s[%s%d of %d]" % (s, "-" if e["from_end"] else "", e["offset"], e["min"])
        elif k == "subslice":
            s = "%s[%d..%s%d]" % (s, e["from"], "-" if e["from_end"] else "", e["to"])
        else:
            s = "%s.<%s>" % (s, k)
    return s


def op_str(body, op):
    if op["k"] in ("copy", "move"):
        return "%s %s" % (op["k"], place_str(body, op["place"]))
    if op["k"] == "const":
        if "fn" in op:
            return "fn %s" % op["fn"]
        if "static" in op:
            return "&static %s" % op["static"]
        if "str" in op:
            return "const %r" % op["str"]
        if "v" in op:
            return "const %s" % (op["v"],)
        if "promoted" in op:
            return "promoted[%d]" % op["promoted"]
        return "const<%s>" % op.get("text", "?")
    return "?"


def rv_str(body, rv):
    k = rv["k"]
    if k == "use":
        return op_str(body, rv["op"])
    if k == "ref":
        return "&%s%s" % ("mut " if rv["mut"] else "", place_str(body, rv["place"]))
    if k == "rawptr":
        return "&raw %s" % place_str(body, rv["place"])
    if k == "binop":
        return "%s(%s, %s)" % (rv["op"], op_str(body, rv["a"]), op_str(body, rv["b"]))
    if k == "unop":
        return "%s(%s)" % (rv["op"], op_str(body, rv["a"]))
    if k == "cast":
        return "%s as %s [%s]" % (op_str(body, rv["op"]), body.prog.ty(rv["ty"]).s, rv["cast"])
    if k == "discr":
        return "discriminant(%s)" % place_str(body, rv["place"])
    if k == "aggregate":
        a = rv["agg"]
        ops = ", ".join(op_str(body, o) for o in rv["ops"])
        if a == "adt":
            return "%s::%s{%s}" % (rv["adt"], rv["variant"], ops)
        if a == "closure":
            return "closure %s[%s]" % (rv["closure"], ops)
        return "%s(%s)" % (a, ops)
    if k == "repeat":
        return "[%s; %s]" % (op_str(body, rv["op"]), rv["count"])
    return "<%s>" % k


def dump_body(body, out=None):
    import sys
    out = out or sys.stdout
    w = out.write
    w("fn %s  [%s] %s\n" % (body.path, body.did, body.loc()))
    for i, l in enumerate(body.locals):
        w("  let _%d: %s%s%s\n" % (i, body.prog.ty(l["ty"]).s, "  // " + l["name"] if "name" in l else "", " (arg)" if 1 <= i <= body.arg_count else ""))
    for i, b in enumerate(body.blocks):
        w(" bb%d%s:\n" % (i, " (cleanup)" if b.get("cleanup") else ""))
        for s in b["stmts"]:
            ln = s["span"]["line"]
            if s["k"] == "assign":
                w("    %s = %s   // L%d%s\n" % (place_str(body, s["place"]), rv_str(body, s["rv"]), ln, " " + "/".join(s["span"].get("macros", [])) if s["span"].get("exp") else ""))
            else:
                w("    %s %s   // L%d\n" % (s["k"], place_str(body, s["place"]) if "place" in s else s.get("text", ""), ln))
        t = b["term"]
        k = t["k"]
        ln = t["span"]["line"]
        if k == "goto":
            w("    goto bb%d\n" % t["target"])
        elif k == "switch":
            w("    switch %s { %s, otherwise: bb%d }   // L%d\n" % (op_str(body, t["discr"]), ", ".join("%d: bb%d" % (v, x) for v, x in zip(t["values"], t["targets"])), t["otherwise"], ln))
        elif k == "call":
            c = t.get("callee")
            name = c["full"] if c else op_str(body, t["func"])
            res = ""
            if c and c.get("resolved") and c["resolved"] != c["path"]:
                res = " => " + c["resolved"]
            w("    %s = call %s(%s)%s -> %s  // L%d%s\n" % (place_str(body, t["dest"]), name, ", ".join(op_str(body, a) for a in t["args"]), res, "bb%d" % t["target"] if t["target"] is not None else "!", ln, " " + "/".join(t["span"].get("macros", [])) if t["span"].get("exp") else ""))
        elif k == "assert":
            m = t["msg"]
            w("    assert(%s == %s) [%s] -> bb%d  // L%d\n" % (op_str(body, t["cond"]), t["expected"], m["k"] + (":" + m["op"] if "op" in m else ""), t["target"], ln))
        elif k == "drop":
            w("    drop(%s) -> bb%d\n" % (place_str(body, t["place"]), t["target"]))
        else:
            w("    %s\n" % k)
    for i, p in enumerate(body.promoted):
        w(" --- promoted[%d]\n" % i)
        dump_body(p, out)
